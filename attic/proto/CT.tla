---- MODULE CT ----
\* PROTOTYPE ContractTrace: property invariants judged on traces recorded from the real code
EXTENDS Naturals, Integers, Sequences, FiniteSets, TLC, FiniteSetsExt, SequencesExt, Json

Impl == {<<"T1","I1">>, <<"T2","I1">>}
Trace == ndJsonDeserialize("trace.ndjson")

VARIABLES l, scn, log, kind
vars == <<l, scn, log, kind>>

Funcs(s) == [i \in 0..Len(s.convs) |-> IF i = 0 THEN s.target ELSE s.convs[i]]

MayMatch(req, prov) ==
  /\ (req.name # "" /\ prov.name # "") => req.name = prov.name
  /\ \/ req.type = prov.type /\ (req.sub = prov.sub \/ req.sub = "" \/ prov.sub = "")
     \/ <<prov.type, req.type>> \in Impl

F1(req, prov) == req.name # "" /\ prov.name # "" /\ req.name # prov.name /\ req.type = prov.type /\ req.sub = "" /\ prov.sub # ""
MayMatchK(req, prov) == MayMatch(req, prov) \/ F1(req, prov)
MustMatch(req, prov) ==
  \/ /\ req.type = prov.type
     /\ CASE req.name = "" /\ req.sub = "" -> TRUE
          [] req.name = "" /\ req.sub # "" -> (prov.name = "" /\ prov.sub \in {"", req.sub}) \/ (prov.name # "" /\ prov.sub = req.sub)
          [] req.name # "" /\ req.sub = "" -> (prov.name = "" /\ prov.sub = "") \/ prov.name = req.name
          [] OTHER -> (prov.name = "" /\ prov.sub = "") \/ (prov.name = req.name /\ prov.sub = req.sub)
  \/ /\ <<prov.type, req.type>> \in Impl /\ prov.name = ""    \* interface: only from type-only providers

RECURSIVE Fix(_, _, _)
Fix(s, M(_, _), A) ==
  LET F == Funcs(s)
      sat(i) == \A j \in DOMAIN F[i].in : \E a \in A : M(F[i].in[j], a)
      A2 == A \cup UNION {{F[i].out[j] : j \in DOMAIN F[i].out} : i \in {k \in 1..Len(s.convs) : sat(k)}}
  IN IF A2 = A THEN A ELSE Fix(s, M, A2)
Supplied(s) == {s.inputs[j] : j \in DOMAIN s.inputs}
DerivMay(s) == Fix(s, MayMatch, Supplied(s))
DerivMust(s) == Fix(s, MustMatch, Supplied(s))
TargetDeriv(s, M(_, _), A) == \A j \in DOMAIN s.target.in : \E a \in A : M(s.target.in[j], a)

\* token -> label
LabelOf(t) == IF t >= 1 /\ t <= Len(scn.inputs) THEN scn.inputs[t]
              ELSE LET e == CHOOSE e \in {log[i] : i \in DOMAIN log} : \E j \in DOMAIN e.outs : e.outs[j] = t
                       j == CHOOSE j \in DOMAIN e.outs : e.outs[j] = t
                   IN Funcs(scn)[e.fn].out[j]
Known(t, i) == (t >= 1 /\ t <= Len(scn.inputs)) \/ \E k \in 1..(i-1) : \E j \in DOMAIN log[k].outs : log[k].outs[j] = t

NoScn == [sid |-> 0, target |-> [in |-> <<>>, out |-> <<>>, fails |-> FALSE], inputs |-> <<>>, convs |-> <<>>]
Init == l = 1 /\ scn = NoScn /\ log = <<>> /\ kind = "none"
Step == /\ l <= Len(Trace)
        /\ l' = l + 1
        /\ LET e == Trace[l] IN
           CASE e.ev = "reset" -> scn' = e.scn /\ log' = <<>> /\ kind' = "run"
             [] e.ev = "exec" -> log' = Append(log, e) /\ UNCHANGED <<scn, kind>>
             [] e.ev = "ret" -> kind' = e.kind /\ UNCHANGED <<scn, log>>
Spec == Init /\ [][Step]_vars
Accepted == l = Len(Trace) + 1

\* ---- property invariants ----
C01 == \A i \in DOMAIN log : LET f == Funcs(scn)[log[i].fn] IN
          /\ Len(log[i].args) = Len(f.in)
          /\ \A j \in DOMAIN f.in : Known(log[i].args[j], i) /\ MayMatch(f.in[j], LabelOf(log[i].args[j]))
TargetRan == \E i \in DOMAIN log : log[i].fn = 0
C02 == (kind \notin {"none", "run"} /\ ~TargetDeriv(scn, MayMatch, DerivMay(scn))) =>
          /\ kind \in {"unsat", "othererr"} /\ ~TargetRan
C04 == /\ \A i \in DOMAIN log : log[i].fails => (i = Len(log) /\ kind \in {"run", "converr"})
       /\ kind = "ok" => \A i \in DOMAIN log : ~log[i].fails
SingleIn(s) == \A i \in 1..Len(s.convs) : Len(s.convs[i].in) <= 1
C05a == (kind \notin {"none", "run"} /\ SingleIn(scn) /\ TargetDeriv(scn, MustMatch, DerivMust(scn))) => kind \in {"ok", "converr"}
C06 == kind \notin {"panic", "crash", "timeout"}
DerivMayK(s) == Fix(s, MayMatchK, Supplied(s))
C01K == \A i \in DOMAIN log : LET f == Funcs(scn)[log[i].fn] IN
          /\ Len(log[i].args) = Len(f.in)
          /\ \A j \in DOMAIN f.in : Known(log[i].args[j], i) /\ MayMatchK(f.in[j], LabelOf(log[i].args[j]))
C02K == (kind \notin {"none", "run", "panic"} /\ ~TargetDeriv(scn, MayMatchK, DerivMayK(scn))) =>
          /\ kind \in {"unsat", "othererr"} /\ ~TargetRan
C05aK == (kind \notin {"none", "run", "panic"} /\ SingleIn(scn) /\ TargetDeriv(scn, MustMatch, DerivMust(scn))) => kind \in {"ok", "converr"}
\* dedicated error type whenever every converter is satisfiable (lower bound)
AllConvSat(s) == LET A == DerivMust(s) IN \A i \in 1..Len(s.convs) : \A j \in DOMAIN s.convs[i].in : \E a \in A : MustMatch(s.convs[i].in[j], a)
C02bK == (kind \notin {"none", "run", "panic"} /\ ~TargetDeriv(scn, MayMatchK, DerivMayK(scn)) /\ AllConvSat(scn)) => kind = "unsat"
\* completeness class (b) approximated: every converter satisfiable, (acyclicity not checked here)
C05bK == (kind \notin {"none", "run", "panic"} /\ AllConvSat(scn) /\ TargetDeriv(scn, MustMatch, DerivMust(scn))) => kind \in {"ok", "converr"}
C05wrong == (kind \notin {"none", "run", "panic"} /\ SingleIn(scn) /\ TargetDeriv(scn, MayMatch, DerivMay(scn))) => kind \in {"ok", "converr"}
NeverOk == kind # "ok"
CountDeriv == (kind \notin {"none","run"} /\ SingleIn(scn) /\ TargetDeriv(scn, MustMatch, DerivMust(scn))) => l < 20000
====
