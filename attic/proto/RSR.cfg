SPECIFICATION Spec
CONSTANT ScnFile = "rscn.json"
CHECK_DEADLOCK FALSE
