SPECIFICATION Spec
INVARIANT CountDeriv
CHECK_DEADLOCK FALSE
