---- MODULE RSR8 ----
\* PROTOTYPE (design phase): faithful model of Func.Call core: callGraph + prune + reachTarget + callDirect
EXTENDS Naturals, Integers, Sequences, FiniteSets, TLC, FiniteSetsExt, SequencesExt, Json

CONSTANTS FixF7, FixF8
Types == {"T1","T2","T3","T4"}
Ifaces == {"I1"}
Impl == {<<"T1","I1">>, <<"T2","I1">>}

WNormal == 1
WTyped == 5
WOther == 20
WName == -1
Inf == 1000000

Root == [k |-> "root", name |-> "", type |-> "", sub |-> "", id |-> 0]
Val(n, t, s) == [k |-> "val", name |-> n, type |-> t, sub |-> s, id |-> 0]
Arg(t, s) == [k |-> "arg", name |-> "", type |-> t, sub |-> s, id |-> 0]
Out(t, s) == [k |-> "out", name |-> "", type |-> t, sub |-> s, id |-> 0]
Fn(i) == [k |-> "fn", name |-> "", type |-> "", sub |-> "", id |-> i]
Nil == [k |-> "nil", name |-> "", type |-> "", sub |-> "", id |-> 0]

ReqVertex(l) == IF l.name = "" THEN Arg(l.type, l.sub) ELSE Val(l.name, l.type, l.sub)
ProvVertex(l) == IF l.name = "" THEN Out(l.type, l.sub) ELSE Val(l.name, l.type, l.sub)

Funcs(scn) == [i \in 0..Len(scn.convs) |-> IF i = 0 THEN scn.target ELSE scn.convs[i]]

E1(scn) ==
  LET F == Funcs(scn) IN
  UNION { {<<Fn(i), ReqVertex(F[i].in[j]), IF F[i].in[j].name = "" THEN WTyped ELSE WNormal>> : j \in DOMAIN F[i].in}
          \cup (IF Len(F[i].in) = 0 THEN {<<Fn(i), Root, WNormal>>} ELSE {})
          \cup (IF i = 0 THEN {} ELSE {<<ProvVertex(F[i].out[j]), Fn(i), IF F[i].out[j].name = "" THEN WTyped ELSE WNormal>> : j \in DOMAIN F[i].out})
        : i \in DOMAIN F }
  \cup {<<ProvVertex(scn.inputs[j]), Root, WNormal>> : j \in DOMAIN scn.inputs}

VOf(E) == {e[1] : e \in E} \cup {e[2] : e \in E} \cup {Root, Fn(0)}
InputVerts(scn) == {ProvVertex(scn.inputs[j]) : j \in DOMAIN scn.inputs}

E2(V1) ==
  UNION {{<<v, Out(v.type, ""), WTyped>>, <<Arg(v.type, ""), v, WTyped>>}
         \cup (IF v.sub # "" THEN {<<Arg(v.type, v.sub), v, WTyped>>} ELSE {}) : v \in {x \in V1 : x.k = "val"}}
E3(V2) == {<<v, Out(v.type, v.sub), WTyped>> : v \in {x \in V2 : x.k = "arg"}}
E4(V3) == {e \in {<<v, v2, WTyped>> : v \in {x \in V3 : x.k = "out" /\ x.type \in Ifaces}, v2 \in {x \in V3 : x.k = "out"}} :
             e[1] # e[2] /\ <<e[2].type, e[1].type>> \in Impl}
E5(V3, inp) == {e \in {<<v, v2, WTyped>> : v \in {x \in V3 : x.k = "val" /\ x.sub = "" /\ x \notin inp},
                               v2 \in {x \in V3 : x.k = "val" /\ x.sub # ""}} : e[1].type = e[2].type}
E6(V3) == {e \in {<<v, v2, WOther>> : v \in {x \in V3 : x.k = "arg"}, v2 \in {x \in V3 : x.k = "out"}} :
             e[1].type = e[2].type /\ ((e[1].sub = "" /\ e[2].sub # "") \/ (e[1].sub # "" /\ e[2].sub = ""))}
Override(E, Enew) == {e \in E : ~\E n \in Enew : n[1] = e[1] /\ n[2] = e[2]} \cup Enew

FullGraph(scn) ==
  LET e1 == E1(scn)
      v1 == VOf(e1)
      e2 == Override(e1, E2(v1))
      v2 == VOf(e2)
      e3 == Override(e2, E3(v2))
      v3 == VOf(e3)
      e4 == Override(e3, E4(v3))
      e5 == Override(e4, E5(v3, InputVerts(scn)))
      e6 == Override(e5, E6(v3))
      e7 == IF scn.mode = "redefine"
            THEN Override(e6, {<<v, Root, WNormal>> : v \in {x \in v3 : x.k \in {"val", "arg"} /\ x.type \in {scn.allow[i] : i \in DOMAIN scn.allow}}})
            ELSE e6
  IN [V |-> v3, E |-> e7]

RECURSIVE Reach(_, _, _)
Reach(G, seen, frontier) ==
  IF frontier = {} THEN seen
  ELSE LET nxt == {e[1] : e \in {x \in G.E : x[2] \in frontier /\ x[2] # Fn(0)}} \ seen
       IN Reach(G, seen \cup nxt, nxt)
Pruned(G) == LET keep == Reach(G, {Root}, {Root}) IN
   [V |-> keep, E |-> {e \in G.E : e[1] \in keep /\ e[2] \in keep}]

\* ---------- Dijkstra outcomes (level-set) on reversed graph from Root ----------
IG(G) == LET seq == TLCEval(SetToSeq(G.V))
             N == Len(seq)
             W == TLCEval([u \in 1..N |-> [v \in 1..N |-> IF \E e \in G.E : e[2] = seq[u] /\ e[1] = seq[v] THEN (CHOOSE e \in G.E : e[2] = seq[u] /\ e[1] = seq[v])[3] ELSE Inf]])
         IN [N |-> N, seq |-> seq, W |-> W, root |-> CHOOSE i \in 1..N : seq[i] = Root]
StepI(g, s) ==
  LET unv == (1..g.N) \ s.vis
      m == Min({s.dist[v] : v \in unv})
      cands == {v \in unv : s.dist[v] = m}
  IN { [dist |-> [v \in 1..g.N |-> IF v \notin s.vis /\ v # u /\ g.W[u][v] # Inf /\ s.dist[u] + g.W[u][v] < s.dist[v] THEN s.dist[u] + g.W[u][v] ELSE s.dist[v]],
        prev |-> [v \in 1..g.N |-> IF v \notin s.vis /\ v # u /\ g.W[u][v] # Inf /\ s.dist[u] + g.W[u][v] < s.dist[v] THEN u ELSE s.prev[v]],
        vis |-> s.vis \cup {u}] : u \in cands }
RECURSIVE DJSet(_, _, _)
DJSet(g, S, n) == IF n = 0 THEN {s.prev : s \in S} ELSE DJSet(g, TLCEval(UNION {StepI(g, s) : s \in S}), n - 1)
DJSAll(g) == DJSet(g, {[dist |-> [v \in 1..g.N |-> IF v = g.root THEN 0 ELSE Inf], prev |-> [v \in 1..g.N |-> 0], vis |-> {}]}, g.N)
RECURSIVE PathI(_, _, _)
PathI(g, prev, i) == IF i = 0 THEN <<>> ELSE Append(PathI(g, prev, prev[i]), g.seq[i])
Discount(G, name) == [V |-> G.V, E |-> {IF e[2].k = "val" /\ e[2].name = name THEN <<e[1], e[2], WName>> ELSE e : e \in G.E}]
Paths(G, cur) == LET H == IF cur.k = "val" THEN Discount(G, cur.name) ELSE G
                     g == TLCEval(IG(H))
                     ci == CHOOSE i \in 1..g.N : g.seq[i] = cur
                 IN {PathI(g, p, ci) : p \in DJSAll(g)}

\* ---------- state machine ----------
VARIABLES scn, G, val, frames, csv, log, toks, outcome, iset
vars == <<scn, G, val, frames, csv, log, toks, outcome, iset>>

\* toks: sequence of [type, src] ; token id = index
Assignable(tok, t) == tok # 0 /\ (toks[tok].type = t \/ <<toks[tok].type, t>> \in Impl)

OutEdges(v) == {e[2] : e \in {x \in G.E : x[1] = v}}
InEdges(v) == {e[1] : e \in {x \in G.E : x[2] = v}}

NewFrame(fn) == [fn |-> fn, phase |-> "plan", paths |-> <<>>, pi |-> 0, pos |-> 0, argMap |-> {}, finalV |-> 0]
Top == frames[Len(frames)]
SetTop(f) == [frames EXCEPT ![Len(frames)] = f]

Perms(S) == {s \in [1..Cardinality(S) -> S] : \A i, j \in 1..Cardinality(S) : i # j => s[i] # s[j]}

RECURSIVE PathChoices(_, _)
PathChoices(PS, order) == IF order = <<>> THEN {<<>>}
                      ELSE {<<p>> \o rest : p \in PS[Head(order)], rest \in PathChoices(PS, Tail(order))}
InPath(p, v) == \E i \in DOMAIN p : p[i] = v

CONSTANT ScnFile
Scenarios == JsonDeserialize(ScnFile)

Init ==
  /\ scn \in {Scenarios[i] : i \in DOMAIN Scenarios}
  /\ LET FG == FullGraph(scn)
         P == Pruned(FG)
         missing == {ReqVertex(scn.target.in[j]) : j \in DOMAIN scn.target.in} \ P.V
     IN /\ G = P
        /\ val = [v \in P.V |-> IF \E j \in DOMAIN scn.inputs : ProvVertex(scn.inputs[j]) = v
                                 THEN Max({j \in DOMAIN scn.inputs : ProvVertex(scn.inputs[j]) = v}) ELSE 0]
        /\ toks = [j \in DOMAIN scn.inputs |-> [type |-> scn.inputs[j].type, src |-> 0]]
        /\ IF missing # {} THEN /\ outcome = [kind |-> "unsat", missing |-> missing, inputs |-> {}]
                                /\ frames = <<>>
           ELSE /\ outcome = [kind |-> "run", missing |-> {}, inputs |-> {}]
                /\ frames = <<NewFrame(Fn(0))>>
  /\ csv = 0
  /\ log = <<>>
  /\ iset = {}

InputOf(p) == IF p[1].k = "root" /\ Len(p) > 1 THEN p[2] ELSE p[1]
Redef == scn.mode = "redefine"

Plan ==
  /\ outcome.kind = "run" /\ frames # <<>> /\ Top.phase = "plan"
  /\ LET outs == OutEdges(Top.fn)
         skipArgs == {v \in outs : v.k = "arg" /\ val[v] # 0}
         skipped == skipArgs \cup {v \in outs : v.k = "root"}
         T == {v \in outs : v.k # "root"} \ skipArgs
         am0 == {<<v, val[v]>> : v \in skipArgs}
     IN IF T = {} THEN /\ frames' = SetTop([Top EXCEPT !.phase = "ret", !.argMap = am0])
                       /\ iset' = IF FixF7 THEN iset ELSE iset \cup skipped
                       /\ UNCHANGED <<outcome, val, toks>>
        ELSE LET PS == TLCEval([c \in T |-> Paths(G, c)]) IN
             \E order \in Perms(T) :
             \E ps \in PathChoices(PS, order) :
               LET unsat == {order[i] : i \in {j \in 1..Cardinality(T) : InPath(ps[j], Top.fn)}}
                   ins == {InputOf(ps[i]) : i \in 1..Cardinality(T)}
                   \* redefine: zero the inputs (value vertices only if invalid, typed args always)
                   zs == IF Redef THEN {v \in ins : (v.k = "val" /\ val[v] = 0) \/ v.k = "arg"} ELSE {}
                   zseq == SetToSeq(zs)
                   n0 == Len(toks)
               IN /\ iset' = (IF FixF7 THEN iset ELSE iset \cup skipped) \cup ins
                  /\ IF unsat # {} THEN /\ outcome' = [kind |-> "unsat2", missing |-> unsat, inputs |-> {}]
                                        /\ frames' = <<>>
                                        /\ UNCHANGED <<val, toks>>
                     ELSE /\ frames' = SetTop([Top EXCEPT !.phase = "walk", !.paths = ps, !.pi = 1, !.pos = 1, !.argMap = am0, !.finalV = 0])
                          /\ toks' = toks \o [k \in 1..Len(zseq) |-> [type |-> zseq[k].type, src |-> 0 - 1]]
                          /\ val' = [v \in DOMAIN val |-> IF v \in zs THEN n0 + (CHOOSE k \in 1..Len(zseq) : zseq[k] = v) ELSE val[v]]
                          /\ UNCHANGED outcome
  /\ UNCHANGED <<scn, G, csv, log>>

CurPath == Top.paths[Top.pi]
CurV == CurPath[Top.pos]
PrevV == IF Top.pos > 1 THEN CurPath[Top.pos - 1] ELSE Nil
Advance(f) == [f EXCEPT !.pos = f.pos + 1]

Walk ==
  /\ outcome.kind = "run" /\ frames # <<>> /\ Top.phase = "walk"
  /\ Top.pi <= Len(Top.paths) /\ Top.pos <= Len(CurPath)
  /\ LET v == CurV IN
     CASE v.k = "root" -> /\ frames' = SetTop(Advance(Top)) /\ UNCHANGED <<val, csv>>
       [] v.k = "val" ->
            LET nv == IF PrevV.k = "out" THEN val[PrevV] ELSE val[v] IN
            /\ csv' = val[v]            \* as coded: BEFORE the copy
            /\ val' = [val EXCEPT ![v] = nv]
            /\ frames' = SetTop(Advance([Top EXCEPT !.finalV = IF nv # 0 THEN nv ELSE Top.finalV]))
       [] v.k = "arg" ->
            LET nv == IF csv # 0 /\ Assignable(csv, v.type) THEN csv ELSE val[v] IN
            /\ val' = [val EXCEPT ![v] = nv]
            /\ frames' = SetTop(Advance([Top EXCEPT !.finalV = nv]))
            /\ UNCHANGED csv
       [] v.k = "out" ->
            LET nv == IF PrevV.k = "out" THEN val[PrevV] ELSE val[v] IN
            /\ val' = [val EXCEPT ![v] = nv]
            /\ csv' = nv
            /\ frames' = SetTop(Advance(Top))
       [] v.k = "fn" ->
            /\ frames' = Append(SetTop([Top EXCEPT !.phase = "wait"]), NewFrame(v))
            /\ UNCHANGED <<val, csv>>
  /\ UNCHANGED <<scn, G, log, toks, outcome, iset>>

\* child frame returned: callDirect + outputValues in the parent
ArgKey(l) == ReqVertex(l)
Lookup(am, v) == IF \E p \in am : p[1] = v THEN (CHOOSE p \in am : p[1] = v)[2] ELSE 0

ReturnToParent ==
  /\ outcome.kind = "run" /\ Len(frames) >= 2 /\ Top.phase = "ret"
  /\ LET child == Top
         parent == frames[Len(frames) - 1]
         f == Funcs(scn)[child.fn.id]
         args == [j \in DOMAIN f.in |-> Lookup(child.argMap, ArgKey(f.in[j]))]
         missing == \E j \in DOMAIN f.in : ~\E p \in child.argMap : p[1] = ArgKey(f.in[j])
     IN IF missing THEN /\ outcome' = [kind |-> "bugerr", missing |-> {}, inputs |-> {}]
                        /\ frames' = <<>>
                        /\ UNCHANGED <<val, log, toks>>
        ELSE LET n0 == Len(toks)
                 outsT == [j \in DOMAIN f.out |-> n0 + j]
             IN /\ log' = IF Redef THEN log ELSE Append(log, [fn |-> child.fn.id, args |-> args, outs |-> outsT])
                /\ toks' = toks \o [j \in DOMAIN f.out |-> [type |-> f.out[j].type, src |-> child.fn.id]]
                /\ IF f.fails /\ ~Redef THEN /\ outcome' = [kind |-> "converr", missing |-> {}, inputs |-> {}]
                                   /\ frames' = <<>>
                                   /\ UNCHANGED val
                   ELSE /\ val' = [x \in G.V |->
                              IF x \in InEdges(child.fn) THEN
                                 IF x.k = "val" /\ \E j \in DOMAIN f.out : f.out[j].name = x.name
                                    THEN outsT[CHOOSE j \in DOMAIN f.out : f.out[j].name = x.name]
                                 ELSE IF x.k = "out" /\ \E j \in DOMAIN f.out : f.out[j].name = "" /\ f.out[j].type = x.type
                                    THEN outsT[Max({j \in DOMAIN f.out : f.out[j].name = "" /\ f.out[j].type = x.type})]
                                 ELSE val[x]
                              ELSE val[x]]
                        /\ frames' = [SubSeq(frames, 1, Len(frames) - 1) EXCEPT ![Len(frames) - 1] = Advance([parent EXCEPT !.phase = "walk"])]
                        /\ UNCHANGED outcome
  /\ UNCHANGED <<scn, G, csv, iset>>

EndPath ==
  /\ outcome.kind = "run" /\ frames # <<>> /\ Top.phase = "walk"
  /\ Top.pi <= Len(Top.paths) /\ Top.pos > Len(CurPath)
  /\ IF Top.finalV = 0 THEN /\ outcome' = [kind |-> "panic_final", missing |-> {}, inputs |-> {}]
                            /\ frames' = <<>>
     ELSE /\ frames' = SetTop([Top EXCEPT !.argMap = {p \in Top.argMap : p[1] # CurPath[Len(CurPath)]} \cup {<<CurPath[Len(CurPath)], Top.finalV>>},
                                          !.pi = Top.pi + 1, !.pos = 1, !.finalV = 0])
          /\ UNCHANGED outcome
  /\ UNCHANGED <<scn, G, val, csv, log, toks, iset>>

EndWalk ==
  /\ outcome.kind = "run" /\ frames # <<>> /\ Top.phase = "walk" /\ Top.pi > Len(Top.paths)
  /\ frames' = SetTop([Top EXCEPT !.phase = "ret"])
  /\ UNCHANGED <<scn, G, val, csv, log, toks, outcome, iset>>

ExecTarget ==
  /\ outcome.kind = "run" /\ Len(frames) = 1 /\ Top.phase = "ret"
  /\ IF Redef
     THEN /\ outcome' = [kind |-> "redef", missing |-> {},
                          inputs |-> {[name |-> v.name, type |-> v.type, sub |-> v.sub, k |-> v.k] : v \in {x \in iset : x.k \in {"val", "arg"} /\ x \notin InputVerts(scn) /\ ~(FixF8 /\ x.k = "arg" /\ Out(x.type, x.sub) \in InputVerts(scn))}}]
          /\ UNCHANGED log
     ELSE LET f == scn.target
              args == [j \in DOMAIN f.in |-> Lookup(Top.argMap, ArgKey(f.in[j]))]
              missing == \E j \in DOMAIN f.in : ~\E p \in Top.argMap : p[1] = ArgKey(f.in[j])
          IN IF missing THEN outcome' = [kind |-> "bugerr", missing |-> {}, inputs |-> {}] /\ UNCHANGED log
             ELSE outcome' = [kind |-> "ok", missing |-> {}, inputs |-> {}] /\ log' = Append(log, [fn |-> 0, args |-> args, outs |-> <<>>])
  /\ frames' = <<>>
  /\ UNCHANGED <<scn, G, val, csv, toks, iset>>

Overflow ==
  /\ outcome.kind = "run" /\ Len(frames) > Len(scn.convs) + 2
  /\ outcome' = [kind |-> "overflow", missing |-> {}, inputs |-> {}]
  /\ frames' = <<>>
  /\ UNCHANGED <<scn, G, val, csv, log, toks, iset>>

Emit ==
  /\ outcome.kind \notin {"run", "emitted"}
  /\ PrintT(<<"OUT", ToJson([sid |-> scn.sid, kind |-> outcome.kind, log |-> log, inputs |-> SetToSeq(outcome.inputs)])>>)
  /\ outcome' = [outcome EXCEPT !.kind = "emitted"]
  /\ UNCHANGED <<scn, G, val, frames, csv, log, toks, iset>>

Next == IF outcome.kind = "run" /\ Len(frames) > Len(scn.convs) + 2 THEN Overflow
        ELSE Plan \/ Walk \/ ReturnToParent \/ EndPath \/ EndWalk \/ ExecTarget \/ Emit
Spec == Init /\ [][Next]_vars

\* ---- contract-level invariants on the model ----
LabelOfTok(t) == IF t <= Len(scn.inputs) THEN scn.inputs[t]
                 ELSE LET f == Funcs(scn)[toks[t].src]
                          j == t - Min({u \in 1..Len(toks) : u > Len(scn.inputs) /\ toks[u].src = toks[t].src /\ \A w \in u..t : toks[w].src = toks[t].src})+ 1
                      IN f.out[((j - 1) % Len(f.out)) + 1]
MayMatch(req, prov) ==
  /\ (req.name # "" /\ prov.name # "") => req.name = prov.name
  /\ \/ req.type = prov.type /\ (req.sub = prov.sub \/ req.sub = "" \/ prov.sub = "")
     \/ <<prov.type, req.type>> \in Impl
C01 == \A i \in DOMAIN log : LET f == Funcs(scn)[log[i].fn] IN
          \A j \in DOMAIN f.in : log[i].args[j] # 0 /\ MayMatch(f.in[j], LabelOfTok(log[i].args[j]))
C06 == outcome.kind \notin {"panic_final", "overflow"}
Allowed == {scn.allow[i] : i \in DOMAIN scn.allow}
SuppliedL == {scn.inputs[j] : j \in DOMAIN scn.inputs}
C08a == outcome.kind = "redef" => \A x \in outcome.inputs : x.type \in Allowed /\ [name |-> x.name, type |-> x.type, sub |-> x.sub] \notin SuppliedL
C08d == (outcome.kind \notin {"run", "emitted"} /\ \A j \in DOMAIN scn.target.in : scn.target.in[j].type \in Allowed) => outcome.kind = "redef"
====
