SPECIFICATION Spec
INVARIANT C03
CHECK_DEADLOCK FALSE
