import json,re,sys
from collections import defaultdict,Counter
model=defaultdict(set)
for line in open('tlc.out'):
    if line.startswith('<<"OUT"'):
        m=re.match(r'<<"OUT", "(.*)">>\s*$',line)
        s=m.group(1).encode().decode('unicode_escape')
        o=json.loads(s)
        kind=o['kind']
        if kind=='unsat2': kind='unsat'
        if kind=='panic_final': kind="panic:didn't reach a final"
        lg=''
        for e in o['log']:
            fn=e['fn']
            lg+='%d[%s]>[%s];'%(fn,' '.join(map(str,e['args'])),' '.join(map(str,e['outs'])))
        model[str(o['sid'])].add(kind+'|'+lg)
real=json.load(open('real.json'))
scn={str(s['sid']):s for s in json.load(open('scn.json'))}
c=Counter()
bad=[]
for sid,rs in real.items():
    ms=model.get(sid,set())
    rs=set(rs)
    if rs<=ms:
        c['real⊆model']+=1
        if rs==ms: c['equal']+=1
        else: c['model_has_more']+=1
    else:
        c['MISMATCH']+=1
        bad.append(sid)
print(c)
for sid in bad[:8]:
    print('SID',sid,json.dumps(scn[sid]))
    print('  real ',sorted(real[sid]))
    print('  model',sorted(model.get(sid,[])))
