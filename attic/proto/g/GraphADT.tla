---- MODULE GraphADT ----
\* PROTOTYPE: internal/graph.Graph as a heap of map objects + handles (Copy = fresh objects, Reverse = aliasing view)
EXTENDS Naturals, Sequences, FiniteSets, TLC

CONSTANTS Keys, Vers, Weights, MaxHandles, MaxOps

\* A map object is either adjacency: [Keys -> [Keys -> Weights \cup {0}]] with presence set, or a hash map.
\* heap objects are identified by naturals. obj.adj[k] defined iff k \in obj.dom
VARIABLES adj,     \* adj[o] : [dom: SUBSET Keys, e: [Keys -> [Keys -> Weights \cup {0}]]]  (0 = no edge)
          hash,    \* hash[o] : [Keys -> Vers \cup {0}]  (0 = absent)
          handles, \* sequence of [out: objId, inn: objId, h: objId]
          nops
vars == <<adj, hash, handles, nops>>

NoEdges == [a \in Keys |-> [b \in Keys |-> 0]]
EmptyAdj == [dom |-> {}, e |-> NoEdges]
EmptyHash == [k \in Keys |-> 0]

Init == /\ adj = <<EmptyAdj, EmptyAdj>>
        /\ hash = <<EmptyHash>>
        /\ handles = <<[out |-> 1, inn |-> 2, h |-> 1]>>
        /\ nops = 0

H(i) == handles[i]
Present(i, k) == hash[H(i).h][k] # 0

AddV(i, k, ver, overwrite) ==
  /\ hash' = [hash EXCEPT ![H(i).h][k] = IF overwrite \/ hash[H(i).h][k] = 0 THEN ver ELSE @]
  /\ adj' = IF k \in adj[H(i).out].dom THEN adj   \* as coded: test is on adjacencyOut only
            ELSE [adj EXCEPT ![H(i).out].dom = @ \cup {k}, ![H(i).inn].dom = @ \cup {k}]
  /\ UNCHANGED handles

\* precondition: both endpoints present (documented)
AddE(i, a, b, w) ==
  /\ a \in adj[H(i).out].dom /\ b \in adj[H(i).inn].dom
  /\ adj' = [adj EXCEPT ![H(i).out].e[a][b] = w, ![H(i).inn].e[b][a] = w]
  /\ UNCHANGED <<hash, handles>>

RemE(i, a, b) ==
  /\ adj' = [adj EXCEPT ![H(i).out].e[a][b] = 0, ![H(i).inn].e[b][a] = 0]
  /\ UNCHANGED <<hash, handles>>

RemV(i, k) ==
  LET o == H(i).out  n == H(i).inn IN
  /\ adj' = [adj EXCEPT
        ![o] = [dom |-> @.dom \ {k},
                e |-> [a \in Keys |-> [b \in Keys |-> IF a = k THEN 0 ELSE IF b = k /\ adj[n].e[k][a] # 0 THEN 0 ELSE adj[o].e[a][b]]]],
        ![n] = [dom |-> @.dom \ {k},
                e |-> [a \in Keys |-> [b \in Keys |-> IF a = k THEN 0 ELSE IF b = k /\ adj[o].e[k][a] # 0 THEN 0 ELSE adj[n].e[a][b]]]]]
  /\ hash' = [hash EXCEPT ![H(i).h][k] = 0]
  /\ UNCHANGED handles

Copy(i) ==
  /\ Len(handles) < MaxHandles
  /\ adj' = adj \o <<adj[H(i).out], adj[H(i).inn]>>
  /\ hash' = Append(hash, hash[H(i).h])
  /\ handles' = Append(handles, [out |-> Len(adj) + 1, inn |-> Len(adj) + 2, h |-> Len(hash) + 1])

Reverse(i) ==
  /\ Len(handles) < MaxHandles
  /\ handles' = Append(handles, [out |-> H(i).inn, inn |-> H(i).out, h |-> H(i).h])
  /\ UNCHANGED <<adj, hash>>

Next == /\ nops < MaxOps
        /\ nops' = nops + 1
        /\ \E i \in DOMAIN handles :
           \/ \E k \in Keys, v \in Vers, ow \in BOOLEAN : AddV(i, k, v, ow)
           \/ \E a, b \in Keys, w \in Weights : AddE(i, a, b, w)
           \/ \E a, b \in Keys : RemE(i, a, b)
           \/ \E k \in Keys : RemV(i, k)
           \/ Copy(i)
           \/ Reverse(i)
Spec == Init /\ [][Next]_vars

\* --- properties ---
OutMap(i) == adj[H(i).out]
InMap(i) == adj[H(i).inn]
Mirror == \A i \in DOMAIN handles : \A a, b \in Keys : OutMap(i).e[a][b] = InMap(i).e[b][a]
EdgesAmongPresent == \A i \in DOMAIN handles : \A a, b \in Keys : OutMap(i).e[a][b] # 0 => (a \in OutMap(i).dom /\ b \in OutMap(i).dom)
DomAgree == \A i \in DOMAIN handles : OutMap(i).dom = InMap(i).dom /\ OutMap(i).dom = {k \in Keys : hash[H(i).h][k] # 0}
View == <<adj, hash, handles>>
====
