SPECIFICATION Spec
CONSTANTS
  Keys = {"a","b","c"}
  Vers = {1,2}
  Weights = {1,2}
  MaxHandles = 2
  MaxOps = 6
INVARIANTS Mirror EdgesAmongPresent DomAgree
CHECK_DEADLOCK FALSE
