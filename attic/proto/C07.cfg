SPECIFICATION Spec
CONSTANTS
  ScnFile = "scn.json"
  FixF1 = TRUE
  FixF2 = TRUE
  FixF3 = TRUE
INVARIANTS C07 Succeeds C01
CHECK_DEADLOCK FALSE
