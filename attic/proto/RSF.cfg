SPECIFICATION Spec
CONSTANTS
  ScnFile = "scn.json"
  FixF1 = TRUE
  FixF2 = TRUE
  FixF3 = TRUE
INVARIANTS C01 C06 C02m C02bm C05am C05bm
CHECK_DEADLOCK FALSE
