SPECIFICATION Spec
CONSTANT ScnFile = "scn.json"
CHECK_DEADLOCK FALSE
