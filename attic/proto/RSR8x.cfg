SPECIFICATION Spec
CONSTANTS
  ScnFile = "rscn.json"
  FixF7 = TRUE
  FixF8 = FALSE
INVARIANTS C08a C08d
CHECK_DEADLOCK FALSE
