import json,re
from collections import defaultdict,Counter
model=defaultdict(set)
for line in open('rtlc.out'):
    if line.startswith('<<"OUT"'):
        m=re.match(r'<<"OUT", "(.*)">>\s*$',line)
        o=json.loads(m.group(1).encode().decode('unicode_escape'))
        k=o['kind']
        if k in('unsat','unsat2'): key='unsat'
        elif k=='redef': key='redef|'+str(sorted('%s:%s:%s'%(x['name'],x['type'],x['sub']) for x in o['inputs'])).replace("'",'').replace(',','')
        else: key=k
        model[str(o['sid'])].add(key)
real=json.load(open('rreal.json'))
scn={str(s['sid']):s for s in json.load(open('rscn.json'))}
c=Counter(); bad=[]
for sid,rs in real.items():
    rs=set(rs); ms=model.get(sid,set())
    if rs<=ms: c['real⊆model']+=1; c['equal' if rs==ms else 'model_more']+=1
    else: c['MISMATCH']+=1; bad.append(sid)
print(c)
for sid in bad[:6]:
    print(sid,json.dumps(scn[sid])); print('  real',sorted(real[sid])); print('  model',sorted(model.get(sid,[])))
