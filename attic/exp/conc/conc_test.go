package conc

import (
	"bytes"
	"fmt"
	"os"
	"runtime"
	"strconv"
	"sync"
	"sync/atomic"
	"testing"
	"time"

	am "github.com/hashicorp/go-argmapper"
	"github.com/hashicorp/go-hclog"
)

func init() { hclog.L().SetLevel(hclog.Error) }

type T1 struct{ ID int }
type T2 struct{ ID int }

func gid() int {
	b := make([]byte, 64)
	b = b[:runtime.Stack(b, false)]
	b = bytes.TrimPrefix(b, []byte("goroutine "))
	b = b[:bytes.IndexByte(b, ' ')]
	n, _ := strconv.Atoi(string(b))
	return n
}

// gate scheduler: schedule is a list of (goroutine index, event) that must occur in this order.
type step struct {
	g  int
	ev string
}

func TestForcedSchedule(t *testing.T) {
	if os.Getenv("CONC") == "" {
		t.Skip()
	}
	var execs int32
	conv := am.MustFunc(am.NewFunc(func(a T1) T2 {
		n := atomic.AddInt32(&execs, 1)
		return T2{int(n)}
	}, am.FuncOnce()))

	schedules := [][]step{
		{{0, "once.check"}, {0, "once.exec"}, {0, "once.store"}, {1, "once.check"}},
		{{0, "once.check"}, {1, "once.check"}, {0, "once.exec"}, {0, "once.store"}, {1, "once.exec"}, {1, "once.store"}},
	}
	for si, sched := range schedules {
		atomic.StoreInt32(&execs, 0)
		conv = am.MustFunc(am.NewFunc(func(a T1) T2 {
			n := atomic.AddInt32(&execs, 1)
			return T2{int(n)}
		}, am.FuncOnce()))
		var mu sync.Mutex
		cond := sync.NewCond(&mu)
		pos := 0
		gmap := map[int]int{}
		infeasible := false
		am.VerifHook = func(ev string, f *am.Func) {
			if f != conv {
				return
			}
			mu.Lock()
			defer mu.Unlock()
			me := gmap[gid()]
			deadline := time.Now().Add(2 * time.Second)
			for !(pos < len(sched) && sched[pos].g == me && sched[pos].ev == ev) {
				if pos >= len(sched) || infeasible {
					return // schedule exhausted: run free
				}
				if time.Now().After(deadline) {
					infeasible = true
					cond.Broadcast()
					return
				}
				// wait with timeout
				go func() { time.Sleep(50 * time.Millisecond); cond.Broadcast() }()
				cond.Wait()
			}
			pos++
			cond.Broadcast()
		}
		var wg sync.WaitGroup
		results := make([]int, 2)
		start := make(chan struct{})
		for g := 0; g < 2; g++ {
			wg.Add(1)
			g := g
			ready := make(chan struct{})
			go func() {
				defer wg.Done()
				mu.Lock()
				gmap[gid()] = g
				mu.Unlock()
				close(ready)
				<-start
				target := am.MustFunc(am.NewFunc(func(b T2) int { return b.ID }))
				r := target.Call(am.Typed(T1{g}), am.ConverterFunc(conv))
				if r.Err() != nil {
					results[g] = -1
				} else {
					results[g] = r.Out(0).(int)
				}
			}()
			<-ready
		}
		close(start)
		wg.Wait()
		am.VerifHook = nil
		fmt.Printf("schedule %d: execs=%d results=%v infeasible=%v consumed=%d/%d\n", si, atomic.LoadInt32(&execs), results, infeasible, pos, len(sched))
	}
}

func TestRaceFree(t *testing.T) {
	which := os.Getenv("RACE")
	if which == "" {
		t.Skip()
	}
	var opt am.Arg
	var conv *am.Func
	switch which {
	case "namedsubtype":
		opt = am.NamedSubtype("A", T1{1}, "s")
		conv = am.MustFunc(am.NewFunc(func(a T1) T2 { return T2{a.ID} }))
	case "once":
		opt = am.Named("a", T1{1})
		conv = am.MustFunc(am.NewFunc(func(a T1) T2 { return T2{a.ID} }, am.FuncOnce()))
	default:
		opt = am.Named("a", T1{1})
		conv = am.MustFunc(am.NewFunc(func(a T1) T2 { return T2{a.ID} }))
	}
	target := am.MustFunc(am.NewFunc(func(b T2) int { return b.ID }))
	var wg sync.WaitGroup
	for g := 0; g < 8; g++ {
		wg.Add(1)
		go func() {
			defer wg.Done()
			for i := 0; i < 50; i++ {
				r := target.Call(opt, am.ConverterFunc(conv))
				if r.Err() != nil {
					t.Error(r.Err())
				}
			}
		}()
	}
	wg.Wait()
}
