package intro

import (
	"errors"
	"fmt"
	"reflect"
	"testing"

	am "github.com/hashicorp/go-argmapper"
	"github.com/hashicorp/go-hclog"
)

func init() { hclog.L().SetLevel(hclog.Error) }

type T1 struct{ ID int }
type T2 struct{ ID int }
type MyErr struct{}

func (*MyErr) Error() string { return "myerr" }

func try(name string, f func()) {
	defer func() {
		if r := recover(); r != nil {
			fmt.Printf("%s: PANIC %v\n", name, r)
		}
	}()
	f()
}

func vals(vs *am.ValueSet) string {
	s := ""
	for _, v := range vs.Values() {
		s += fmt.Sprintf("[%q %s %q]", v.Name, v.Type, v.Subtype)
	}
	return s
}

func TestIntrospect(t *testing.T) {
	show := func(name string, f interface{}) {
		try(name, func() {
			fn, err := am.NewFunc(f)
			if err != nil {
				fmt.Println(name, "=> ERR", err)
				return
			}
			fmt.Println(name, "=> in", vals(fn.Input()), "out", vals(fn.Output()))
		})
	}
	show("struct tags", func(struct {
		am.Struct
		A int    `argmapper:"Foo"`
		B string `argmapper:",typeOnly"`
		c int
		D T1  `argmapper:"x,subtype=s"`
		E T2  `argmapper:"Bar,typeOnly,subtype=q"`
		FooBar bool
	}) {
	})
	show("ptr struct", func(*struct {
		am.Struct
		A int
	}) *struct {
		am.Struct
		B string
	} {
		return nil
	})
	show("double ptr", func(**struct {
		am.Struct
		A int
	}) {
	})
	show("mixed", func(struct {
		am.Struct
		A int
	}, int) {
	})
	show("mixed results", func() (struct {
		am.Struct
		A int
	}, int) {
		panic("x")
	})
	show("positional", func(int, string, T1) (T2, string, error) { return T2{}, "", nil })
	show("positional repeated", func(int, int) (int, int) { return 0, 0 })
	show("error middle", func() (int, error, string) { return 0, nil, "" })
	show("error first+last", func() (error, error) { return nil, nil })
	show("only error", func() error { return nil })
	show("concrete err final", func() (int, *MyErr) { return 0, nil })
	show("non-anonymous Struct field", func(struct {
		S am.Struct
		A int
	}) {
	})
	show("non-func", 42)
	show("nil", nil)
	show("struct result + error", func() (struct {
		am.Struct
		A int `argmapper:",subtype=zz"`
	}, error) {
		panic("x")
	})
	show("variadic", func(a int, b ...string) {})
	show("empty marker", func(struct{ am.Struct }) {})
	// lookups
	fn, _ := am.NewFunc(func(struct {
		am.Struct
		A int `argmapper:",typeOnly,subtype=s"`
		B int `argmapper:",typeOnly,subtype=t"`
		C int `argmapper:"named,subtype=s"`
	}) {
	})
	it := reflect.TypeOf(0)
	fmt.Println("Typed(int)", fn.Input().Typed(it), "TS(int,s)", fn.Input().TypedSubtype(it, "s"), "TS(int,t)", fn.Input().TypedSubtype(it, "t"), "Named(named)", fn.Input().Named("named"), "Named(NAMED)", fn.Input().Named("NAMED"))
}

func TestValueSet(t *testing.T) {
	it := reflect.TypeOf(0)
	st := reflect.TypeOf("")
	try("nvs", func() {
		vs, err := am.NewValueSet([]am.Value{
			{Name: "Foo", Type: it},
			{Type: st, Subtype: "x"},
			{Name: "bar", Type: st, Subtype: "y"},
			{Type: it},
		})
		fmt.Println("NewValueSet err", err, vals(vs))
		fmt.Println(" Named(foo)", vs.Named("foo"), "Named(Foo)", vs.Named("Foo"), "Typed(string)", vs.Typed(st), "Typed(int)", vs.Typed(it), "TS(string,x)", vs.TypedSubtype(st, "x"), "TS(string,y)", vs.TypedSubtype(st, "y"))
		vs.Named("foo").Value = reflect.ValueOf(7)
		vs.Typed(st).Value = reflect.ValueOf("s")
		vs.Named("bar").Value = reflect.ValueOf("b")
		vs.Typed(it).Value = reflect.ValueOf(9)
		sv := vs.SignatureValues()
		fmt.Println(" sig", vs.Signature(), len(sv))
		vs2, _ := am.NewValueSet(vs.Values())
		err = vs2.FromSignature(sv)
		fmt.Print(" restored err ", err, ": ")
		for _, v := range vs2.Values() {
			fmt.Print(v.Value.Interface(), " ")
		}
		fmt.Println()
	})
	try("typed dup types", func() {
		vs, err := am.NewValueSet([]am.Value{{Type: it, Subtype: "a"}, {Type: it, Subtype: "b"}})
		fmt.Println("dup types err", err, vals(vs), "Typed(int)", vs.Typed(it))
	})
	try("case-dup names", func() {
		vs, err := am.NewValueSet([]am.Value{{Name: "a", Type: it}, {Name: "A", Type: it}})
		fmt.Println("case dup err", err, vals(vs))
	})
	try("built func chain", func() {
		in, _ := am.NewValueSet([]am.Value{{Name: "a", Type: it}, {Type: st}})
		out, _ := am.NewValueSet([]am.Value{{Name: "r", Type: reflect.TypeOf(T1{})}, {Type: reflect.TypeOf(T2{})}})
		calls := 0
		bf, err := am.BuildFunc(in, out, func(i, o *am.ValueSet) error {
			calls++
			o.Named("r").Value = reflect.ValueOf(T1{i.Named("a").Value.Interface().(int)})
			if calls == 1 {
				o.Typed(reflect.TypeOf(T2{})).Value = reflect.ValueOf(T2{len(i.Typed(st).Value.Interface().(string))})
			}
			return nil
		})
		fmt.Println("buildfunc err", err, vals(bf.Input()), vals(bf.Output()))
		tgt, _ := am.NewFunc(func(s struct {
			am.Struct
			R T1
			X T2 `argmapper:",typeOnly"`
		}) string {
			return fmt.Sprint(s.R.ID, s.X.ID)
		})
		for k := 0; k < 2; k++ {
			r := tgt.Call(am.Named("a", 10+k), am.Typed("hello"), am.ConverterFunc(bf))
			fmt.Println(" call", k, r.Err(), func() interface{} {
				if r.Err() == nil {
					return r.Out(0)
				}
				return nil
			}())
		}
	})
}

func TestResult(t *testing.T) {
	sentinel := errors.New("boom")
	show := func(name string, f interface{}, args ...am.Arg) {
		try(name, func() {
			fn, err := am.NewFunc(f)
			if err != nil {
				fmt.Println(name, "newfunc err", err)
				return
			}
			r := fn.Call(args...)
			s := fmt.Sprintf("%s => Len=%d Err=%v outs=", name, r.Len(), r.Err())
			for i := 0; i < r.Len(); i++ {
				s += fmt.Sprintf("[%v]", r.Out(i))
			}
			fmt.Println(s)
		})
	}
	show("k=2+err nil", func() (int, string, error) { return 1, "a", nil })
	show("k=2+err", func() (int, string, error) { return 1, "a", sentinel })
	show("err middle", func() (int, error, string) { return 1, sentinel, "z" })
	show("err middle nil", func() (int, error, string) { return 1, nil, "z" })
	show("concrete final", func() (int, *MyErr) { return 1, &MyErr{} })
	show("concrete final nil", func() (int, *MyErr) { return 1, nil })
	show("only err", func() error { return sentinel })
	show("none", func() {})
	show("unsat", func(int) (int, error) { return 1, nil })
	show("err err", func() (error, error) { return sentinel, nil })
	show("nil opt", func() int { return 1 }, nil)
}

func TestOptions(t *testing.T) {
	f, _ := am.NewFunc(func(s struct {
		am.Struct
		FooBar T1
		X      T2 `argmapper:"MiXed"`
	}) string {
		return fmt.Sprint(s.FooBar.ID, s.X.ID)
	}, am.Named("FOOBAR", T1{1}), am.Named("mixed", T2{1}))
	r := f.Call(am.Named("fOObAR", T1{2}), am.Named("foobar", T1{3}))
	fmt.Println("opts:", r.Err(), r.Out(0))
	r = f.Call()
	fmt.Println("defaults:", r.Err(), r.Out(0))
	r = f.Call(am.Named("foobar", nil), am.Typed(nil))
	fmt.Println("nil values:", r.Err(), r.Out(0))
	r = f.Call(am.Named("foobar", T2{9}))
	fmt.Println("same name other type:", r.Err() != nil)
}
