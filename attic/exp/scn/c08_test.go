package scn

import (
	"encoding/json"
	"fmt"
	"math/rand"
	"os"
	"reflect"
	"testing"

	am "github.com/hashicorp/go-argmapper"
)

type redefOut struct {
	Err      string
	Inputs   []Label
	CallErr  string
	CallLog  []Exec
	RedefLog int
	Panic    string
}

func labelOfValue(v am.Value) Label {
	ti := -1
	for i, t := range Types {
		if t == v.Type {
			ti = i
		}
	}
	return Label{v.Name, ti, v.Subtype}
}

func runRedef(s Scenario, allow []bool, outAllow []bool) (o redefOut) {
	env := &Env{}
	defer func() {
		if r := recover(); r != nil {
			o.Panic = fmt.Sprint(r)
		}
	}()
	tf, _ := env.Build(-1, s.Target)
	args, _ := env.InputArgs(s.Inputs)
	for i, c := range s.Convs {
		cf, _ := env.Build(i, c)
		args = append(args, am.ConverterFunc(cf))
	}
	if allow != nil {
		args = append(args, am.FilterInput(func(v am.Value) bool { return allow[labelOfValue(v).Type] }))
	}
	if outAllow != nil {
		args = append(args, am.FilterOutput(func(v am.Value) bool { return outAllow[labelOfValue(v).Type] }))
	}
	rf, err := tf.Redefine(args...)
	o.RedefLog = len(env.Log)
	if err != nil {
		o.Err = "E"
		if _, ok := err.(*am.ErrArgumentUnsatisfied); ok {
			o.Err = "unsat"
		}
		return
	}
	var callArgs []am.Arg
	for _, v := range rf.Input().Values() {
		o.Inputs = append(o.Inputs, labelOfValue(v))
		env.Next++
		val := reflect.New(v.Type).Elem()
		val.Field(0).SetInt(int64(env.Next))
		callArgs = append(callArgs, am.NamedSubtype(v.Name, val.Interface(), v.Subtype))
	}
	env.Log = nil
	res := rf.Call(callArgs...)
	if e := res.Err(); e != nil {
		o.CallErr = "E"
		if _, ok := e.(*am.ErrArgumentUnsatisfied); ok {
			o.CallErr = "unsat"
		}
	}
	o.CallLog = env.Log
	return
}

func TestC08(t *testing.T) {
	if os.Getenv("C08") == "" {
		t.Skip()
	}
	r := rand.New(rand.NewSource(11))
	stats := map[string]int{}
	show := map[string]int{}
	nameType := map[string]int{"a": 0, "b": 1, "c": 2}
	for i := 0; i < 20000; i++ {
		lab := func() Label {
			if r.Intn(3) == 0 {
				n := []string{"a", "b", "c"}[r.Intn(3)]
				return Label{n, nameType[n], ""} // each name denotes a single type
			}
			return Label{"", r.Intn(4), ""}
		}
		s := Scenario{}
		np := 1 + r.Intn(2)
		for j := 0; j < np; j++ {
			s.Target.In = append(s.Target.In, lab())
		}
		s.Target.In = dedupe(s.Target.In)
		s.Target.Form = 1
		s.Target.Out = []Label{{"", r.Intn(4), ""}}
		ni := r.Intn(3)
		for j := 0; j < ni; j++ {
			s.Inputs = append(s.Inputs, lab())
		}
		s.Inputs = dedupe(s.Inputs)
		nc := r.Intn(4)
		sig := map[string]bool{}
		for j := 0; j < nc; j++ {
			c := FuncSpec{Form: 1}
			if r.Intn(6) > 0 {
				c.In = []Label{lab()}
			}
			c.Out = []Label{lab()}
			k := fmt.Sprint(c.In, c.Out)
			if sig[k] {
				continue
			}
			sig[k] = true
			s.Convs = append(s.Convs, c)
		}
		var allow []bool
		if r.Intn(4) > 0 {
			allow = []bool{r.Intn(2) == 0, r.Intn(2) == 0, r.Intn(2) == 0, r.Intn(2) == 0, false}
		}
		var outAllow []bool
		if r.Intn(4) == 0 {
			outAllow = []bool{r.Intn(2) == 0, r.Intn(2) == 0, r.Intn(2) == 0, r.Intn(2) == 0, false}
		}
		o := runRedef(s, allow, outAllow)
		ok := func(l Label) bool { return allow == nil || allow[l.Type] }
		var issues []string
		if o.Panic != "" {
			issues = append(issues, "panic")
		}
		if o.RedefLog > 0 {
			issues = append(issues, "ran-user-code")
		}
		outRej := outAllow != nil && !outAllow[s.Target.Out[0].Type]
		if outRej && o.Err == "" {
			issues = append(issues, "outfilter-not-enforced")
		}
		allPermitted := true
		for _, p := range s.Target.In {
			if !ok(p) {
				allPermitted = false
			}
		}
		if allPermitted && !outRej && o.Err != "" {
			issues = append(issues, "fails-though-all-params-permitted")
		}
		if o.Err == "" && o.Panic == "" {
			for _, in := range o.Inputs {
				if !ok(in) {
					issues = append(issues, "input-violates-filter")
				}
				for _, sup := range s.Inputs {
					if sup == in {
						issues = append(issues, "input-already-supplied")
					}
				}
			}
			if o.CallErr == "unsat" {
				issues = append(issues, "call-unsat")
			} else if o.CallErr != "" {
				issues = append(issues, "call-othererr")
			}
			if o.CallErr == "" {
				ran := false
				for _, e := range o.CallLog {
					if e.Fn == -1 {
						ran = true
					}
				}
				if !ran {
					issues = append(issues, "target-not-run")
				}
			}
		}
		if len(issues) == 0 {
			stats["clean/"+o.Err]++
			continue
		}
		seen := map[string]bool{}
		for _, is := range issues {
			if seen[is] {
				continue
			}
			seen[is] = true
			stats[is]++
			if show[is] < 2 {
				show[is]++
				b, _ := json.Marshal(s)
				fmt.Println(is, string(b), "allow", allow, "=> inputs", o.Inputs, "callErr", o.CallErr)
			}
		}
	}
	for k, v := range stats {
		fmt.Println(v, k)
	}
}
