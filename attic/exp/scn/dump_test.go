package scn

import (
	"encoding/json"
	"fmt"
	"math/rand"
	"os"
	"sort"
	"strconv"
	"testing"
)

var tnames = []string{"T1", "T2", "T3", "T4", "I1"}

type jl struct {
	Name string `json:"name"`
	Type string `json:"type"`
	Sub  string `json:"sub"`
}
type jf struct {
	In    []jl `json:"in"`
	Out   []jl `json:"out"`
	Fails bool `json:"fails"`
}
type js struct {
	Sid    int  `json:"sid"`
	Target jf   `json:"target"`
	Inputs []jl `json:"inputs"`
	Convs  []jf `json:"convs"`
}

func jls(ls []Label) []jl {
	out := []jl{}
	for _, l := range ls {
		out = append(out, jl{l.Name, tnames[l.Type], l.Sub})
	}
	return out
}
func jfs(f FuncSpec) jf { return jf{jls(f.In), jls(f.Out), f.Fails} }

func TestDump(t *testing.T) {
	n, _ := strconv.Atoi(os.Getenv("DUMP"))
	if n == 0 {
		t.Skip()
	}
	seed, _ := strconv.Atoi(os.Getenv("SEED"))
	r := rand.New(rand.NewSource(int64(seed)))
	var all []js
	real := map[int][]string{}
	for sid := 1; len(all) < n; sid++ {
		s := rscn(r)
		// struct forms only; no errors unless fails
		multi := 0
		for i := range s.Convs {
			s.Convs[i].Form = 1
			s.Convs[i].Fails = s.Convs[i].HasErr && r.Intn(4) == 0
			if len(s.Convs[i].In) > 1 {
				multi++
			}
		}
		s.Target.Form = 1
		s.Target.Out = nil
		if multi > 1 && os.Getenv("MULTI") == "" {
			continue
		}
		// no duplicate input keys
		keys := map[string]bool{}
		dup := false
		for _, l := range s.Inputs {
			k := ""
			switch {
			case l.Name != "" && l.Sub == "":
				k = "n/" + l.Name
			case l.Name != "":
				k = "ns/" + l.Name + "/" + l.Sub
			case l.Sub == "":
				k = "t/" + fmt.Sprint(l.Type)
			default:
				k = "ts/" + fmt.Sprint(l.Type) + "/" + l.Sub
			}
			if keys[k] {
				dup = true
			}
			keys[k] = true
		}
		if dup {
			continue
		}
		// distinct converter signatures (func-type identity): skip duplicates
		sigs := map[string]bool{}
		for _, c := range s.Convs {
			k := fmt.Sprint(c.In, c.Out, c.HasErr)
			if sigs[k] {
				dup = true
			}
			sigs[k] = true
		}
		tk := fmt.Sprint(s.Target.In, s.Target.Out, s.Target.HasErr)
		if sigs[tk] || dup {
			continue
		}
		j := js{Sid: len(all) + 1, Target: jfs(s.Target), Inputs: jls(s.Inputs)}
		j.Convs = []jf{}
		for _, c := range s.Convs {
			j.Convs = append(j.Convs, jfs(c))
		}
		all = append(all, j)
		seen := map[string]bool{}
		for k := 0; k < 20 && os.Getenv("NOREAL") == ""; k++ {
			o := RunScenario(s)
			kind := "ok"
			switch {
			case o.Panic != "":
				kind = "panic:" + o.Panic[:20]
			case o.Unsat:
				kind = "unsat"
			case o.Err != "" && len(o.Err) > 4 && o.Err[:4] == "fail":
				kind = "converr"
			case o.Err != "":
				kind = "bugerr"
			}
			lg := ""
			for _, e := range o.Log {
				lg += fmt.Sprintf("%d%v>%v;", e.Fn+1, e.Args, e.Outs)
			}
			seen[kind+"|"+lg] = true
		}
		for k := range seen {
			real[j.Sid] = append(real[j.Sid], k)
		}
		sort.Strings(real[j.Sid])
	}
	b, _ := json.Marshal(all)
	os.WriteFile("/tmp/proto/scn.json", b, 0644)
	b, _ = json.Marshal(real)
	os.WriteFile("/tmp/proto/real.json", b, 0644)
}
