package scn

import (
	"bufio"
	"encoding/json"
	"os"
	"strconv"
	"testing"
)

type jexec struct {
	Ev    string `json:"ev"`
	Fn    int    `json:"fn"`
	Args  []int  `json:"args"`
	Outs  []int  `json:"outs"`
	Fails bool   `json:"fails"`
}
type jret struct {
	Ev   string `json:"ev"`
	Kind string `json:"kind"`
}
type jreset struct {
	Ev  string `json:"ev"`
	Scn js     `json:"scn"`
}

func TestTraceDump(t *testing.T) {
	reps, _ := strconv.Atoi(os.Getenv("TRACE"))
	if reps == 0 {
		t.Skip()
	}
	b, _ := os.ReadFile("/tmp/proto/scn.json")
	var all []js
	json.Unmarshal(b, &all)
	idx := map[string]int{"T1": 0, "T2": 1, "T3": 2, "T4": 3, "I1": 4}
	toL := func(ls []jl) []Label {
		var o []Label
		for _, l := range ls {
			o = append(o, Label{l.Name, idx[l.Type], l.Sub})
		}
		return o
	}
	f, _ := os.Create("/tmp/proto/trace.ndjson")
	w := bufio.NewWriter(f)
	enc := json.NewEncoder(w)
	for _, j := range all {
		s := Scenario{Target: FuncSpec{In: toL(j.Target.In), Form: 1}, Inputs: toL(j.Inputs)}
		for _, c := range j.Convs {
			s.Convs = append(s.Convs, FuncSpec{In: toL(c.In), Out: toL(c.Out), Form: 1, HasErr: c.Fails, Fails: c.Fails})
		}
		for k := 0; k < reps; k++ {
			o := RunScenario(s)
			enc.Encode(jreset{"reset", j})
			for _, e := range o.Log {
				x := jexec{Ev: "exec", Fn: e.Fn + 1, Args: e.Args, Outs: e.Outs}
				if x.Args == nil {
					x.Args = []int{}
				}
				if x.Outs == nil {
					x.Outs = []int{}
				}
				if e.Fn >= 0 {
					x.Fails = s.Convs[e.Fn].Fails
				}
				enc.Encode(x)
			}
			kind := "ok"
			switch {
			case o.Panic != "":
				kind = "panic"
			case o.Unsat:
				kind = "unsat"
			case o.Err != "" && len(o.Err) > 4 && o.Err[:4] == "fail":
				kind = "converr"
			case o.Err != "":
				kind = "othererr"
			}
			enc.Encode(jret{"ret", kind})
		}
	}
	w.Flush()
	f.Close()
}
