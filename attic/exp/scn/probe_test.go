package scn

import (
	"encoding/json"
	"fmt"
	"os"
	"testing"
)

func show(name string, s Scenario) {
	o := RunScenario(s)
	b, _ := json.Marshal(o)
	fmt.Println(name, "=>", string(b))
}

func TestProbe(t *testing.T) {
	if os.Getenv("PROBE") == "" {
		t.Skip()
	}
	// rule 8: named a:T1 from named b:T1:s
	show("rule8", Scenario{
		Target: FuncSpec{In: []Label{{"a", 0, ""}}, Form: 1},
		Inputs: []Label{{"b", 0, "s"}},
	})
	// named a:T1 from named b:T1 (no sub)
	show("a-from-b", Scenario{
		Target: FuncSpec{In: []Label{{"a", 0, ""}}, Form: 1},
		Inputs: []Label{{"b", 0, ""}},
	})
	// named a:T1:s from typed T1
	show("a:s-from-typed", Scenario{
		Target: FuncSpec{In: []Label{{"a", 0, "s"}}, Form: 1},
		Inputs: []Label{{"", 0, ""}},
	})
	// named a:T1:s from typed T1:s
	show("a:s-from-typed:s", Scenario{
		Target: FuncSpec{In: []Label{{"a", 0, "s"}}, Form: 1},
		Inputs: []Label{{"", 0, "s"}},
	})
	// named a:T1:s from typed T1:t
	show("a:s-from-typed:t", Scenario{
		Target: FuncSpec{In: []Label{{"a", 0, "s"}}, Form: 1},
		Inputs: []Label{{"", 0, "t"}},
	})
	// typed T1:s from typed T1 (cross subtype, weight 20)
	show("typed:s-from-typed", Scenario{
		Target: FuncSpec{In: []Label{{"", 0, "s"}}, Form: 1},
		Inputs: []Label{{"", 0, ""}},
	})
	show("typed:s-from-typed:t", Scenario{
		Target: FuncSpec{In: []Label{{"", 0, "s"}}, Form: 1},
		Inputs: []Label{{"", 0, "t"}},
	})
	show("typed:s-from-named-b:t", Scenario{
		Target: FuncSpec{In: []Label{{"", 0, "s"}}, Form: 1},
		Inputs: []Label{{"b", 0, "t"}},
	})
	show("typed:s-from-named-b", Scenario{
		Target: FuncSpec{In: []Label{{"", 0, "s"}}, Form: 1},
		Inputs: []Label{{"b", 0, ""}},
	})
	show("typed-from-named-b:t", Scenario{
		Target: FuncSpec{In: []Label{{"", 0, ""}}, Form: 1},
		Inputs: []Label{{"b", 0, "t"}},
	})
	// interface param from impl with subtype
	show("I1:s-from-typed T1:t", Scenario{
		Target: FuncSpec{In: []Label{{"", 4, "s"}}, Form: 1},
		Inputs: []Label{{"", 0, "t"}},
	})
	show("I1-from-typed T1", Scenario{
		Target: FuncSpec{In: []Label{{"", 4, ""}}, Form: 1},
		Inputs: []Label{{"", 0, ""}},
	})
	show("named a:I1-from-typed T1", Scenario{
		Target: FuncSpec{In: []Label{{"a", 4, ""}}, Form: 1},
		Inputs: []Label{{"", 0, ""}},
	})
	show("named a:I1-from-named a:T1", Scenario{
		Target: FuncSpec{In: []Label{{"a", 4, ""}}, Form: 1},
		Inputs: []Label{{"a", 0, ""}},
	})
	show("typed I1-from-named a:T1", Scenario{
		Target: FuncSpec{In: []Label{{"", 4, ""}}, Form: 1},
		Inputs: []Label{{"a", 0, ""}},
	})
	// mutual cycle
	if os.Getenv("PROBE") == "cycle" {
		show("mutual", Scenario{
			Target: FuncSpec{In: []Label{{"", 0, ""}}, Form: 0},
			Inputs: []Label{{"", 3, ""}},
			Convs: []FuncSpec{
				{In: []Label{{"", 1, ""}, {"", 3, ""}}, Out: []Label{{"", 0, ""}}},
				{In: []Label{{"", 0, ""}, {"", 3, ""}}, Out: []Label{{"", 1, ""}}},
			},
		})
	}
}
