package scn

import (
	"encoding/json"
	"fmt"
	"math/rand"
	"os"
	"strings"
	"testing"
)

func cloneS(s Scenario) Scenario {
	b, _ := json.Marshal(s)
	var c Scenario
	json.Unmarshal(b, &c)
	return c
}

func variants(s Scenario) []Scenario {
	var out []Scenario
	for i := range s.Convs {
		c := cloneS(s)
		c.Convs = append(c.Convs[:i], c.Convs[i+1:]...)
		out = append(out, c)
	}
	for i := range s.Inputs {
		c := cloneS(s)
		c.Inputs = append(c.Inputs[:i], c.Inputs[i+1:]...)
		out = append(out, c)
	}
	fs := func(get func(*Scenario) *FuncSpec) {
		f := get(&s)
		for i := range f.In {
			c := cloneS(s)
			g := get(&c)
			g.In = append(g.In[:i], g.In[i+1:]...)
			out = append(out, c)
		}
		for i := range f.Out {
			c := cloneS(s)
			g := get(&c)
			g.Out = append(g.Out[:i], g.Out[i+1:]...)
			out = append(out, c)
		}
		for i := range f.In {
			if f.In[i].Sub != "" {
				c := cloneS(s)
				get(&c).In[i].Sub = ""
				out = append(out, c)
			}
			if f.In[i].Name != "" {
				c := cloneS(s)
				get(&c).In[i].Name = ""
				out = append(out, c)
			}
		}
		for i := range f.Out {
			if f.Out[i].Sub != "" {
				c := cloneS(s)
				get(&c).Out[i].Sub = ""
				out = append(out, c)
			}
			if f.Out[i].Name != "" {
				c := cloneS(s)
				get(&c).Out[i].Name = ""
				out = append(out, c)
			}
		}
		if f.HasErr {
			c := cloneS(s)
			get(&c).HasErr = false
			out = append(out, c)
		}
		if f.Form != 1 {
			c := cloneS(s)
			get(&c).Form = 1
			out = append(out, c)
		}
	}
	fs(func(s *Scenario) *FuncSpec { return &s.Target })
	for i := range s.Convs {
		i := i
		fs(func(s *Scenario) *FuncSpec { return &s.Convs[i] })
	}
	for i := range s.Inputs {
		if s.Inputs[i].Sub != "" {
			c := cloneS(s)
			c.Inputs[i].Sub = ""
			out = append(out, c)
		}
		if s.Inputs[i].Name != "" {
			c := cloneS(s)
			c.Inputs[i].Name = ""
			out = append(out, c)
		}
	}
	return out
}

func wellFormed(s Scenario) bool {
	ok := func(ls []Label) bool { return len(dedupe(ls)) == len(ls) }
	if !ok(s.Target.In) || !ok(s.Target.Out) {
		return false
	}
	for _, c := range s.Convs {
		if !ok(c.In) || !ok(c.Out) || len(c.Out) == 0 {
			return false
		}
	}
	return true
}

func Minimize(s Scenario, pred func(Outcome) bool, reps int) Scenario {
	holds := func(s Scenario) bool {
		if !wellFormed(s) {
			return false
		}
		for i := 0; i < reps; i++ {
			if pred(RunScenario(s)) {
				return true
			}
		}
		return false
	}
	for changed := true; changed; {
		changed = false
		for _, v := range variants(s) {
			if holds(v) {
				s = v
				changed = true
				break
			}
		}
	}
	return s
}

func TestMinPanic(t *testing.T) {
	which := os.Getenv("MINP")
	if which == "" {
		t.Skip()
	}
	r := rand.New(rand.NewSource(int64(len(which)) + 42))
	pred := func(o Outcome) bool {
		if which == "bugerr" {
			return strings.Contains(o.Err, "This is a bug")
		}
		return strings.Contains(o.Panic, which)
	}
	found := 0
	seen := map[string]bool{}
	for i := 0; i < 200000 && found < 6; i++ {
		s := rscn(r)
		// skip potential mutual cycles: only allow single-input converters or.. (keep all, risk overflow)
		multi := 0
		for _, c := range s.Convs {
			if len(c.In) > 1 {
				multi++
			}
		}
		if multi > 99 {
			continue
		}
		if pred(RunScenario(s)) {
			m := Minimize(s, pred, 30)
			b, _ := json.Marshal(m)
			if !seen[string(b)] {
				seen[string(b)] = true
				found++
				fmt.Println("MIN", string(b))
				fmt.Println("   ", RunScenario(m))
			}
		}
	}
}
