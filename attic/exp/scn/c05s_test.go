package scn

import (
	"encoding/json"
	"fmt"
	"math/rand"
	"os"
	"testing"
)

func TestC05s(t *testing.T) {
	if os.Getenv("C05S") == "" {
		t.Skip()
	}
	r := rand.New(rand.NewSource(7))
	stats := map[string]int{}
	for i := 0; i < 30000; i++ {
		// typed + named, no subtypes, single-input converters, 4 concrete types
		lab := func() Label {
			n := ""
			if r.Intn(3) == 0 {
				n = []string{"a", "b"}[r.Intn(2)]
			}
			return Label{n, r.Intn(3), []string{"", "", "s", "t"}[r.Intn(4)]}
		}
		s := Scenario{}
		np := 1 + r.Intn(2)
		for j := 0; j < np; j++ {
			s.Target.In = append(s.Target.In, lab())
		}
		s.Target.In = dedupe(s.Target.In)
		s.Target.Form = 1
		ni := r.Intn(3)
		for j := 0; j < ni; j++ {
			s.Inputs = append(s.Inputs, lab())
		}
		nc := r.Intn(5)
		for j := 0; j < nc; j++ {
			c := FuncSpec{Form: 1}
			if r.Intn(5) > 0 {
				c.In = []Label{lab()}
			}
			c.Out = []Label{lab()}
			if r.Intn(3) == 0 {
				c.Out = dedupe(append(c.Out, lab()))
			}
			s.Convs = append(s.Convs, c)
		}
		// name->single type restriction skipped
		// derivability (library lower bound, no subtypes): have set of labels
		have := map[Label]bool{}
		for _, l := range s.Inputs {
			have[l] = true
		}
		// note: named inputs keyed by name: later overrides earlier
		seenName := map[string]Label{}
		_ = 0
		for _, l := range s.Inputs {
			if l.Name != "" {
				if p, ok := seenName[l.Name+"/"+l.Sub]; ok {
					delete(have, p)
				}
				seenName[l.Name+"/"+l.Sub] = l
			}
		}
		for _, l := range s.Inputs {
			if l.Name != "" && seenName[l.Name+"/"+l.Sub] == l {
				have[l] = true
			}
		}
		match := func(req Label) bool {
			for p := range have {
				if p.Type != req.Type {
					continue
				}
				switch {
				case req.Name == "" && req.Sub == "":
					return true
				case req.Name == "" && req.Sub != "":
					if (p.Name == "" && p.Sub == "") || p.Sub == req.Sub {
						return true
					}
				case req.Name != "" && req.Sub == "":
					if (p.Name == "" && p.Sub == "") || p.Name == req.Name {
						return true
					}
				default:
					if (p.Name == "" && p.Sub == "") || (p.Name == req.Name && p.Sub == req.Sub) {
						return true
					}
				}
			}
			return false
		}
		for ch := true; ch; {
			ch = false
			for _, c := range s.Convs {
				ok := true
				for _, in := range c.In {
					if !match(in) {
						ok = false
					}
				}
				if ok {
					for _, o := range c.Out {
						if !have[o] {
							have[o] = true
							ch = true
						}
					}
				}
			}
		}
		der := true
		for _, p := range s.Target.In {
			if !match(p) {
				der = false
			}
		}
		o := RunScenario(s)
		key := fmt.Sprintf("der=%v unsat=%v err=%v panic=%v", der, o.Unsat, o.Err != "" && !o.Unsat, o.Panic != "")
		stats[key]++
		if (der && (o.Err != "" || o.Panic != "")) || (!der && o.Err == "" && o.Panic == "") {
			if stats["shown"+key] < 3 {
				stats["shown"+key]++
				m := Minimize(s, func(o2 Outcome) bool { return (o2.Err != "") == (o.Err != "") && (o2.Panic != "") == (o.Panic != "") && o2.Unsat == o.Unsat }, 5)
				_ = m
				b, _ := json.Marshal(s)
				fmt.Println(key, string(b))
			}
		}
	}
	for k, v := range stats {
		fmt.Println(v, k)
	}
}
