package scn

import (
	"encoding/json"
	"fmt"
	"math/rand"
	"os"
	"sort"
	"strconv"
	"testing"
)

type jsr struct {
	js
	Mode  string   `json:"mode"`
	Allow []string `json:"allow"`
}

func TestRDump(t *testing.T) {
	n, _ := strconv.Atoi(os.Getenv("RDUMP"))
	if n == 0 {
		t.Skip()
	}
	r := rand.New(rand.NewSource(21))
	nameType := map[string]int{"a": 0, "b": 1, "c": 2}
	var all []jsr
	real := map[int][]string{}
	for len(all) < n {
		lab := func() Label {
			if r.Intn(3) == 0 {
				nm := []string{"a", "b", "c"}[r.Intn(3)]
				return Label{nm, nameType[nm], ""}
			}
			return Label{"", r.Intn(4), ""}
		}
		s := Scenario{}
		np := 1 + r.Intn(2)
		for j := 0; j < np; j++ {
			s.Target.In = append(s.Target.In, lab())
		}
		s.Target.In = dedupe(s.Target.In)
		s.Target.Form = 1
		ni := r.Intn(3)
		for j := 0; j < ni; j++ {
			s.Inputs = append(s.Inputs, lab())
		}
		s.Inputs = dedupe(s.Inputs)
		nc := r.Intn(4)
		sig := map[string]bool{fmt.Sprint(s.Target.In, s.Target.Out): true}
		for j := 0; j < nc; j++ {
			c := FuncSpec{Form: 1}
			if r.Intn(6) > 0 {
				c.In = []Label{lab()}
			}
			c.Out = []Label{lab()}
			k := fmt.Sprint(c.In, c.Out)
			if sig[k] {
				continue
			}
			sig[k] = true
			s.Convs = append(s.Convs, c)
		}
		var allow []bool
		if r.Intn(4) > 0 {
			allow = []bool{r.Intn(2) == 0, r.Intn(2) == 0, r.Intn(2) == 0, r.Intn(2) == 0, false}
		}
		j := jsr{js: js{Sid: len(all) + 1, Target: jfs(s.Target), Inputs: jls(s.Inputs), Convs: []jf{}}, Mode: "redefine", Allow: []string{}}
		for _, c := range s.Convs {
			j.Convs = append(j.Convs, jfs(c))
		}
		for i, tn := range tnames {
			if allow == nil || allow[i] {
				j.Allow = append(j.Allow, tn)
			}
		}
		all = append(all, j)
		seen := map[string]bool{}
		for k := 0; k < 20; k++ {
			o := runRedef(s, allow, nil)
			key := ""
			switch {
			case o.Panic != "":
				key = "panic"
			case o.Err != "":
				key = o.Err
			default:
				var ls []string
				for _, l := range o.Inputs {
					ls = append(ls, l.Name+":"+tnames[l.Type]+":"+l.Sub)
				}
				sort.Strings(ls)
				key = "redef|" + fmt.Sprint(ls)
			}
			seen[key] = true
		}
		for k := range seen {
			real[j.Sid] = append(real[j.Sid], k)
		}
		sort.Strings(real[j.Sid])
	}
	b, _ := json.Marshal(all)
	os.WriteFile("/tmp/proto/rscn.json", b, 0644)
	b, _ = json.Marshal(real)
	os.WriteFile("/tmp/proto/rreal.json", b, 0644)
}
