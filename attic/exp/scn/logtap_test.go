package scn

import (
	"fmt"
	"io"
	"log"
	"os"
	"reflect"
	"testing"

	am "github.com/hashicorp/go-argmapper"
	"github.com/hashicorp/go-hclog"
)

type tap struct{ ev []string }

func descr(v interface{}) string {
	rv := reflect.ValueOf(v)
	if rv.Kind() == reflect.Ptr && rv.Elem().Kind() == reflect.Struct {
		e := rv.Elem()
		tn := e.Type().Name()
		s := tn + "{"
		for i := 0; i < e.NumField(); i++ {
			f := e.Type().Field(i)
			fv := e.Field(i)
			switch f.Name {
			case "Name", "Subtype":
				s += f.Name + "=" + fv.String() + " "
			case "Type":
				s += "Type=" + fv.Interface().(reflect.Type).String() + " "
			case "Value":
				val := fv.Interface().(reflect.Value)
				if val.IsValid() {
					s += fmt.Sprintf("Value=%d ", IDOf(val))
				}
			case "Func":
				s += fmt.Sprintf("Func=%p ", fv.Interface())
			}
		}
		return s + "}"
	}
	return fmt.Sprintf("%T", v)
}

func (t *tap) Trace(msg string, args ...interface{}) {
	s := msg
	for i := 0; i+1 < len(args); i += 2 {
		k := args[i].(string)
		switch x := args[i+1].(type) {
		case string:
			if k == "graph" {
				s += " graph(len=" + fmt.Sprint(len(x)) + ")"
			} else {
				s += " " + k + "=" + x
			}
		default:
			rv := reflect.ValueOf(x)
			if rv.Kind() == reflect.Slice {
				s += " " + k + "=["
				for j := 0; j < rv.Len(); j++ {
					s += descr(rv.Index(j).Interface()) + ", "
				}
				s += "]"
			} else {
				s += " " + k + "=" + descr(x)
			}
		}
	}
	t.ev = append(t.ev, s)
}
func (t *tap) Log(level hclog.Level, msg string, args ...interface{}) {}
func (t *tap) Debug(msg string, args ...interface{})                  {}
func (t *tap) Info(msg string, args ...interface{})                   {}
func (t *tap) Warn(msg string, args ...interface{})                   {}
func (t *tap) Error(msg string, args ...interface{})                  {}
func (t *tap) IsTrace() bool                                          { return true }
func (t *tap) IsDebug() bool                                          { return true }
func (t *tap) IsInfo() bool                                           { return true }
func (t *tap) IsWarn() bool                                           { return true }
func (t *tap) IsError() bool                                          { return true }
func (t *tap) ImpliedArgs() []interface{}                             { return nil }
func (t *tap) With(args ...interface{}) hclog.Logger                  { return t }
func (t *tap) Name() string                                           { return "tap" }
func (t *tap) Named(name string) hclog.Logger                         { return t }
func (t *tap) ResetNamed(name string) hclog.Logger                    { return t }
func (t *tap) SetLevel(level hclog.Level)                             {}
func (t *tap) StandardLogger(opts *hclog.StandardLoggerOptions) *log.Logger {
	return log.New(io.Discard, "", 0)
}
func (t *tap) StandardWriter(opts *hclog.StandardLoggerOptions) io.Writer { return io.Discard }

func TestLogTap(t *testing.T) {
	if os.Getenv("TAP") == "" {
		t.Skip()
	}
	env := &Env{}
	s := Scenario{
		Target: FuncSpec{In: []Label{{"a", 1, ""}}, Form: 1},
		Inputs: []Label{{"b", 0, ""}, {"a", 0, ""}},
		Convs:  []FuncSpec{{In: []Label{{"", 0, ""}}, Out: []Label{{"", 1, ""}}}},
	}
	tf, _ := env.Build(-1, s.Target)
	args, _ := env.InputArgs(s.Inputs)
	cf, _ := env.Build(0, s.Convs[0])
	fmt.Printf("conv ptr %p\n", cf)
	args = append(args, am.ConverterFunc(cf))
	tp := &tap{}
	args = append(args, am.Logger(tp))
	res := tf.Call(args...)
	fmt.Println("err", res.Err())
	for _, e := range tp.ev {
		fmt.Println(e)
	}
}
