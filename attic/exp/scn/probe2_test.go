package scn

import (
	"os"
	"testing"
)

func TestProbe2(t *testing.T) {
	if os.Getenv("PROBE2") == "" {
		t.Skip()
	}
	show("p1", Scenario{
		Target: FuncSpec{In: []Label{{"", 0, "s"}, {"a", 3, "t"}}, Form: 1},
		Inputs: []Label{{"", 0, ""}, {"", 3, ""}},
	})
	show("p2", Scenario{
		Target: FuncSpec{In: []Label{{"", 0, "s"}, {"a", 3, ""}}, Form: 1},
		Inputs: []Label{{"", 0, ""}, {"", 3, ""}},
	})
	show("p3", Scenario{
		Target: FuncSpec{In: []Label{{"", 0, "s"}}, Form: 1},
		Inputs: []Label{{"", 0, ""}, {"", 3, ""}},
	})
	show("p4", Scenario{
		Target: FuncSpec{In: []Label{{"a", 3, ""},{"", 0, "s"}}, Form: 1},
		Inputs: []Label{{"", 0, ""}, {"", 3, ""}},
	})
	show("p5", Scenario{
		Target: FuncSpec{In: []Label{{"a", 3, ""},{"", 0, "s"}}, Form: 1},
		Inputs: []Label{{"", 0, "s"}, {"", 3, ""}},
	})
	show("p6", Scenario{
		Target: FuncSpec{In: []Label{{"a", 3, ""},{"", 0, ""}}, Form: 1},
		Inputs: []Label{{"", 0, ""}, {"", 3, ""}},
	})
	show("p7 a:T4 + typed T1:s from typed T1:s, a named", Scenario{
		Target: FuncSpec{In: []Label{{"a", 3, ""},{"", 0, "s"}}, Form: 1},
		Inputs: []Label{{"", 0, "s"}, {"a", 3, ""}},
	})
}
