package scn

import (
	"encoding/json"
	"fmt"
	"math/rand"
	"os"
	"os/exec"
	"testing"
	"time"

	am "github.com/hashicorp/go-argmapper"
	"github.com/hashicorp/go-hclog"
)

func init() { hclog.L().SetLevel(hclog.Error) }

var names = []string{"", "a", "b"}
var subs = []string{"", "", "s", "t"}

func rlabel(r *rand.Rand, nt int) Label {
	return Label{Name: names[r.Intn(len(names))], Type: r.Intn(nt), Sub: subs[r.Intn(len(subs))]}
}

func rfunc(r *rand.Rand, maxIn, maxOut int, target bool) FuncSpec {
	f := FuncSpec{Form: r.Intn(3), HasErr: r.Intn(2) == 0}
	nin := r.Intn(maxIn + 1)
	for i := 0; i < nin; i++ {
		f.In = append(f.In, rlabel(r, 5))
	}
	nout := r.Intn(maxOut + 1)
	if !target && nout == 0 {
		nout = 1
	}
	for i := 0; i < nout; i++ {
		f.Out = append(f.Out, rlabel(r, 4))
	}
	// dedupe keys: no repeated name, no repeated type-only key in struct forms
	f.In = dedupe(f.In)
	f.Out = dedupe(f.Out)
	return f
}

func dedupe(ls []Label) []Label {
	seenN := map[string]bool{}
	seenT := map[int]bool{}
	var out []Label
	for _, l := range ls {
		if l.Name != "" {
			if seenN[l.Name] {
				continue
			}
			seenN[l.Name] = true
		} else {
			if seenT[l.Type] {
				continue
			}
			seenT[l.Type] = true
		}
		out = append(out, l)
	}
	return out
}

func rscn(r *rand.Rand) Scenario {
	s := Scenario{Target: rfunc(r, 3, 1, true)}
	ni := r.Intn(4)
	for i := 0; i < ni; i++ {
		l := rlabel(r, 4)
		s.Inputs = append(s.Inputs, l)
	}
	nc := r.Intn(4)
	for i := 0; i < nc; i++ {
		s.Convs = append(s.Convs, rfunc(r, 2, 2, false))
	}
	return s
}

type Outcome struct {
	Panic string
	Err   string
	Unsat bool
	Log   []Exec
}

func RunScenario(s Scenario) (o Outcome) {
	env := &Env{}
	defer func() {
		if r := recover(); r != nil {
			o.Panic = fmt.Sprint(r)
			o.Log = env.Log
		}
	}()
	tf, err := env.Build(-1, s.Target)
	if err != nil {
		o.Err = "newfunc: " + err.Error()
		return
	}
	args, _ := env.InputArgs(s.Inputs)
	for i, c := range s.Convs {
		cf, err := env.Build(i, c)
		if err != nil {
			o.Err = "newfunc conv: " + err.Error()
			return
		}
		args = append(args, am.ConverterFunc(cf))
	}
	res := tf.Call(args...)
	if e := res.Err(); e != nil {
		if _, ok := e.(*am.ErrArgumentUnsatisfied); ok {
			o.Unsat = true
			o.Err = "unsat"
		} else {
			o.Err = e.Error()
		}
	}
	o.Log = env.Log
	return
}

func TestChild(t *testing.T) {
	js := os.Getenv("SCN")
	if js == "" {
		t.Skip()
	}
	var s Scenario
	json.Unmarshal([]byte(js), &s)
	o := RunScenario(s)
	b, _ := json.Marshal(o)
	fmt.Println("OUTCOME", string(b))
}

func TestFuzz(t *testing.T) {
	if os.Getenv("FUZZ") == "" {
		t.Skip()
	}
	seed := time.Now().UnixNano()
	r := rand.New(rand.NewSource(seed))
	cnt := map[string]int{}
	shown := map[string]int{}
	for i := 0; i < 3000; i++ {
		s := rscn(r)
		b, _ := json.Marshal(s)
		cmd := exec.Command(os.Args[0], "-test.run", "TestChild")
		cmd.Env = append(os.Environ(), "SCN="+string(b))
		done := make(chan struct{})
		var out []byte
		var err error
		go func() { out, err = cmd.CombinedOutput(); close(done) }()
		select {
		case <-done:
		case <-time.After(20 * time.Second):
			cmd.Process.Kill()
			<-done
			cnt["HANG"]++
			fmt.Println("HANG", string(b))
			continue
		}
		key := "ok"
		if err != nil {
			key = "CRASH"
			so := string(out)
			if len(so) > 300 {
				so = so[:300]
			}
			if shown[key] < 5 {
				fmt.Println("CRASH", string(b), so)
			}
		} else {
			var o Outcome
			idx := -1
			for j := 0; j+8 < len(out); j++ {
				if string(out[j:j+8]) == "OUTCOME " {
					idx = j + 8
					break
				}
			}
			if idx >= 0 {
				end := idx
				for end < len(out) && out[end] != '\n' {
					end++
				}
				json.Unmarshal(out[idx:end], &o)
			}
			if o.Panic != "" {
				p := o.Panic
				if len(p) > 40 {
					p = p[:40]
				}
				key = "PANIC " + p
				if shown[key] < 3 {
					fmt.Println(key, string(b))
				}
			} else if o.Unsat {
				key = "unsat"
			} else if o.Err != "" {
				e := o.Err
				if len(e) > 30 {
					e = e[:30]
				}
				key = "err " + e
				if shown[key] < 6 {
					fmt.Println(key, string(b), "LOG", o.Log)
				}
			}
		}
		shown[key]++
		cnt[key]++
	}
	for k, v := range cnt {
		fmt.Println(v, k)
	}
}
