package scn

import (
	"os"
	"testing"
)

func TestRedef2(t *testing.T) {
	if os.Getenv("REDEF2") == "" {
		t.Skip()
	}
	// target (a:T1, x:T3); conv (a:T2)->x:T3 ; filter allows T1,T2 only
	redef("same-name-two-types", Scenario{
		Target: FuncSpec{In: []Label{{"a", 0, ""}, {"x", 2, ""}}, Form: 1},
		Convs:  []FuncSpec{{In: []Label{{"a", 1, ""}}, Out: []Label{{"x", 2, ""}}, Form: 1}},
	}, []int{0, 1})
	// subtype lost
	redef("named-subtype", Scenario{
		Target: FuncSpec{In: []Label{{"a", 0, "s"}}, Form: 1},
	}, nil)
	redef("typed-subtype", Scenario{
		Target: FuncSpec{In: []Label{{"", 0, "s"}}, Form: 1},
	}, nil)
}
