package scn

import (
	"fmt"
	"os"
	"testing"
)

func TestTable(t *testing.T) {
	if os.Getenv("TABLE") == "" {
		t.Skip()
	}
	ns := []string{"", "a", "b"}
	ss := []string{"", "s", "t"}
	fmt.Printf("%-8s", "req\\prov")
	for _, pn := range ns {
		for _, ps := range ss {
			fmt.Printf("%-6s", pn+":"+ps)
		}
	}
	fmt.Println()
	for _, rn := range ns {
		for _, rs := range ss {
			fmt.Printf("%-8s", rn+":"+rs)
			for _, pn := range ns {
				for _, ps := range ss {
					o := RunScenario(Scenario{
						Target: FuncSpec{In: []Label{{rn, 0, rs}}, Form: 1},
						Inputs: []Label{{pn, 0, ps}},
					})
					c := "."
					if o.Panic != "" {
						c = "P"
					} else if o.Err == "" {
						c = "Y"
					} else if !o.Unsat {
						c = "E"
					}
					fmt.Printf("%-6s", c)
				}
			}
			fmt.Println()
		}
	}
}
