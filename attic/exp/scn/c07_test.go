package scn

import (
	"fmt"
	"os"
	"testing"
)

func TestC07(t *testing.T) {
	if os.Getenv("C07") == "" {
		t.Skip()
	}
	cnt := map[string]int{}
	for i := 0; i < 300; i++ {
		o := RunScenario(Scenario{
			Target: FuncSpec{In: []Label{{"a", 1, ""}}, Form: 1},
			Inputs: []Label{{"b", 0, ""}, {"a", 0, ""}, {"c", 0, ""}},
			Convs:  []FuncSpec{{In: []Label{{"", 0, ""}}, Out: []Label{{"", 1, ""}}}},
		})
		cnt[fmt.Sprint("A ", o.Err, o.Panic, o.Log)]++
		// two converters: named a:T1 -> T2 and typed T1 -> T2
		o = RunScenario(Scenario{
			Target: FuncSpec{In: []Label{{"a", 1, ""}}, Form: 1},
			Inputs: []Label{{"a", 0, ""}},
			Convs: []FuncSpec{
				{In: []Label{{"", 0, ""}}, Out: []Label{{"", 1, ""}}},
				{In: []Label{{"a", 0, ""}}, Out: []Label{{"", 1, ""}}, Form: 1},
			},
		})
		cnt[fmt.Sprint("B ", o.Err, o.Panic, o.Log)]++
		o = RunScenario(Scenario{
			Target: FuncSpec{In: []Label{{"a", 1, ""}}, Form: 1},
			Inputs: []Label{{"a", 0, ""}, {"b", 0, ""}},
			Convs: []FuncSpec{
				{In: []Label{{"", 0, ""}}, Out: []Label{{"", 1, ""}}},
				{In: []Label{{"a", 0, ""}}, Out: []Label{{"", 1, ""}}, Form: 1},
			},
		})
		cnt[fmt.Sprint("C ", o.Err, o.Panic, o.Log)]++
		// typed target param, two named inputs: no affinity, any
		o = RunScenario(Scenario{
			Target: FuncSpec{In: []Label{{"", 1, ""}}, Form: 1},
			Inputs: []Label{{"a", 0, ""}, {"b", 0, ""}},
			Convs: []FuncSpec{
				{In: []Label{{"", 0, ""}}, Out: []Label{{"", 1, ""}}},
			},
		})
		cnt[fmt.Sprint("D ", o.Err, o.Panic, o.Log)]++
		// named out converter
		o = RunScenario(Scenario{
			Target: FuncSpec{In: []Label{{"a", 1, ""}}, Form: 1},
			Inputs: []Label{{"a", 0, ""}, {"b", 0, ""}},
			Convs: []FuncSpec{
				{In: []Label{{"", 0, ""}}, Out: []Label{{"a", 1, ""}}, Form: 1},
			},
		})
		cnt[fmt.Sprint("E ", o.Err, o.Panic, o.Log)]++
	}
	for k, v := range cnt {
		fmt.Println(v, k)
	}
}
