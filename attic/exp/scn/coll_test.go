package scn

import (
	"os"
	"testing"
)

func TestColl(t *testing.T) {
	if os.Getenv("COLL") == "" {
		t.Skip()
	}
	// target func(T1) T1 ; converter func(T1) T1 (same type) ; input T1
	show("coll-direct", Scenario{
		Target: FuncSpec{In: []Label{{"", 0, ""}}, Out: []Label{{"", 0, ""}}},
		Inputs: []Label{{"", 0, ""}},
		Convs:  []FuncSpec{{In: []Label{{"", 0, ""}}, Out: []Label{{"", 0, ""}}}},
	})
	// target func(T1) T1 ; converter func(T1) T1 ; conv T2->T1; input T2
	show("coll-chain", Scenario{
		Target: FuncSpec{In: []Label{{"", 0, ""}}, Out: []Label{{"", 0, ""}}},
		Inputs: []Label{{"", 1, ""}},
		Convs: []FuncSpec{
			{In: []Label{{"", 0, ""}}, Out: []Label{{"", 0, ""}}},
			{In: []Label{{"", 1, ""}}, Out: []Label{{"", 0, ""}}},
		},
	})
	// two convs same type, first fails
	show("dup-conv-first-fails", Scenario{
		Target: FuncSpec{In: []Label{{"", 0, ""}}},
		Inputs: []Label{{"", 1, ""}},
		Convs: []FuncSpec{
			{In: []Label{{"", 1, ""}}, Out: []Label{{"", 0, ""}}, HasErr: true, Fails: true},
			{In: []Label{{"", 1, ""}}, Out: []Label{{"", 0, ""}}, HasErr: true},
		},
	})
}
