package scn

import (
	"fmt"
	"os"
	"reflect"
	"testing"

	am "github.com/hashicorp/go-argmapper"
)

func redef(name string, s Scenario, allow []int) {
	env := &Env{}
	defer func() {
		if r := recover(); r != nil {
			fmt.Println(name, "PANIC", r)
		}
	}()
	tf, _ := env.Build(-1, s.Target)
	args, _ := env.InputArgs(s.Inputs)
	for i, c := range s.Convs {
		cf, _ := env.Build(i, c)
		args = append(args, am.ConverterFunc(cf))
	}
	if allow != nil {
		var fs []am.FilterFunc
		for _, a := range allow {
			fs = append(fs, am.FilterType(Types[a]))
		}
		args = append(args, am.FilterInput(am.FilterOr(fs...)))
	}
	rf, err := tf.Redefine(args...)
	if err != nil {
		fmt.Println(name, "redefine err:", err.Error()[:60])
		return
	}
	fmt.Print(name, " inputs:")
	var callArgs []am.Arg
	for _, v := range rf.Input().Values() {
		fmt.Print(" ", v.String())
		env.Next++
		val := reflect.New(v.Type).Elem()
		if v.Type.Kind() == reflect.Struct {
			val.Field(0).SetInt(int64(env.Next))
		}
		callArgs = append(callArgs, am.NamedSubtype(v.Name, val.Interface(), v.Subtype))
	}
	fmt.Println(" | log during redefine:", env.Log)
	res := rf.Call(callArgs...)
	fmt.Println("   call err:", res.Err() != nil, "log:", env.Log)
}

func TestRedef(t *testing.T) {
	if os.Getenv("REDEF") == "" {
		t.Skip()
	}
	c := func(in, out int) FuncSpec {
		return FuncSpec{In: []Label{{"", in, ""}}, Out: []Label{{"", out, ""}}}
	}
	for i := 0; i < 3; i++ {
		redef("chain2 filter T3", Scenario{
			Target: FuncSpec{In: []Label{{"", 0, ""}}},
			Convs:  []FuncSpec{c(1, 0), c(2, 1)},
		}, []int{2})
		redef("chain1 filter T2", Scenario{
			Target: FuncSpec{In: []Label{{"", 0, ""}}},
			Convs:  []FuncSpec{c(1, 0)},
		}, []int{1})
		redef("chain2 nofilter", Scenario{
			Target: FuncSpec{In: []Label{{"", 0, ""}}},
			Convs:  []FuncSpec{c(1, 0), c(2, 1)},
		}, nil)
		redef("supplied typed", Scenario{
			Target: FuncSpec{In: []Label{{"", 0, ""}, {"", 1, ""}}},
			Inputs: []Label{{"", 0, ""}},
		}, nil)
		redef("supplied named", Scenario{
			Target: FuncSpec{In: []Label{{"a", 0, ""}, {"b", 1, ""}}, Form: 1},
			Inputs: []Label{{"a", 0, ""}},
		}, nil)
		redef("supplied named for typed param", Scenario{
			Target: FuncSpec{In: []Label{{"", 0, ""}, {"", 1, ""}}, Form: 1},
			Inputs: []Label{{"a", 0, ""}},
		}, nil)
	}
}
