package scn

import (
	"os"
	"testing"
)

func TestOnce(t *testing.T) {
	if os.Getenv("ONCE") == "" {
		t.Skip()
	}
	for form := 0; form < 3; form++ {
		show("once-form", Scenario{
			Target: FuncSpec{In: []Label{{"", 1, ""}, {"", 2, ""}}, Form: 1},
			Inputs: []Label{{"", 3, ""}},
			Convs: []FuncSpec{
				{In: []Label{{"", 3, ""}}, Out: []Label{{"x", 0, ""}}, Form: form, Once: true},
				{In: []Label{{"x", 0, ""}}, Out: []Label{{"", 1, ""}}, Form: 1},
				{In: []Label{{"x", 0, ""}}, Out: []Label{{"", 2, ""}}, Form: 1},
			},
		})
	}
}
