package scn

import (
	"errors"
	"fmt"
	"reflect"
	"strings"

	am "github.com/hashicorp/go-argmapper"
)

type T1 struct{ ID int }
type T2 struct{ ID int }
type T3 struct{ ID int }
type T4 struct{ ID int }
type I1 interface{ I1() }

func (T1) I1() {}
func (T2) I1() {}

var Types = []reflect.Type{
	reflect.TypeOf(T1{}), reflect.TypeOf(T2{}), reflect.TypeOf(T3{}), reflect.TypeOf(T4{}),
	reflect.TypeOf((*I1)(nil)).Elem(),
}

const NConcrete = 4

type Label struct {
	Name string
	Type int
	Sub  string
}

func (l Label) String() string { return fmt.Sprintf("%s:%d:%s", l.Name, l.Type, l.Sub) }

type FuncSpec struct {
	In     []Label
	Out    []Label
	Form   int // 0 positional if possible, 1 struct, 2 ptr struct
	HasErr bool
	Fails  bool
	Once   bool
}

func (f FuncSpec) String() string {
	return fmt.Sprintf("%v->%v form=%d err=%v fails=%v once=%v", f.In, f.Out, f.Form, f.HasErr, f.Fails, f.Once)
}

type Scenario struct {
	Target FuncSpec
	Inputs []Label
	Convs  []FuncSpec
}

type Exec struct {
	Fn   int // -1 target, else conv index
	Args []int
	Outs []int
}

type Env struct {
	Next int
	Log  []Exec
}

func MkValue(t int, id int) reflect.Value {
	ct := t
	if t >= NConcrete {
		ct = 0 // I1 -> T1
	}
	v := reflect.New(Types[ct]).Elem()
	v.Field(0).SetInt(int64(id))
	if t >= NConcrete {
		iv := reflect.New(Types[t]).Elem()
		iv.Set(v)
		return iv
	}
	return v
}

func IDOf(v reflect.Value) int {
	for v.Kind() == reflect.Interface {
		if v.IsNil() {
			return -1
		}
		v = v.Elem()
	}
	return int(v.Field(0).Int())
}

var structMarker = reflect.TypeOf(am.Struct{})

func plain(ls []Label) bool {
	for _, l := range ls {
		if l.Name != "" || l.Sub != "" {
			return false
		}
	}
	return true
}

func structOf(ls []Label) reflect.Type {
	sf := []reflect.StructField{{Name: "Struct", Type: structMarker, Anonymous: true}}
	for i, l := range ls {
		tags := []string{l.Name}
		if l.Name == "" {
			tags = append(tags, "typeOnly")
		}
		if l.Sub != "" {
			tags = append(tags, "subtype="+l.Sub)
		}
		sf = append(sf, reflect.StructField{
			Name: fmt.Sprintf("F%d", i),
			Type: Types[l.Type],
			Tag:  reflect.StructTag(fmt.Sprintf(`argmapper:"%s"`, strings.Join(tags, ","))),
		})
	}
	return reflect.StructOf(sf)
}

var errT = reflect.TypeOf((*error)(nil)).Elem()

// sig returns go types and accessor functions
func side(ls []Label, form int) (types []reflect.Type, isStruct bool, ptr bool) {
	if len(ls) == 0 && form == 0 {
		return nil, false, false
	}
	if form == 0 && plain(ls) {
		for _, l := range ls {
			types = append(types, Types[l.Type])
		}
		return types, false, false
	}
	st := structOf(ls)
	if form == 2 {
		return []reflect.Type{reflect.PtrTo(st)}, true, true
	}
	return []reflect.Type{st}, true, false
}

type FailErr struct{ Fn int }

func (e *FailErr) Error() string { return fmt.Sprintf("fail %d", e.Fn) }

func (env *Env) Build(idx int, fs FuncSpec) (*am.Func, error) {
	inT, inStruct, inPtr := side(fs.In, fs.Form)
	outT, outStruct, outPtr := side(fs.Out, fs.Form)
	outAll := outT
	if fs.HasErr {
		outAll = append(append([]reflect.Type{}, outT...), errT)
	}
	ft := reflect.FuncOf(inT, outAll, false)
	fn := reflect.MakeFunc(ft, func(args []reflect.Value) []reflect.Value {
		ex := Exec{Fn: idx}
		if inStruct {
			s := args[0]
			if inPtr {
				s = s.Elem()
			}
			for i := range fs.In {
				ex.Args = append(ex.Args, IDOf(s.Field(i+1)))
			}
		} else {
			for _, a := range args {
				ex.Args = append(ex.Args, IDOf(a))
			}
		}
		var res []reflect.Value
		if outStruct {
			st := outT[0]
			if outPtr {
				st = st.Elem()
			}
			s := reflect.New(st)
			for i, l := range fs.Out {
				env.Next++
				s.Elem().Field(i + 1).Set(MkValue(l.Type, env.Next))
				ex.Outs = append(ex.Outs, env.Next)
			}
			if outPtr {
				res = append(res, s)
			} else {
				res = append(res, s.Elem())
			}
		} else {
			for _, l := range fs.Out {
				env.Next++
				res = append(res, MkValue(l.Type, env.Next))
				ex.Outs = append(ex.Outs, env.Next)
			}
		}
		if fs.HasErr {
			if fs.Fails {
				res = append(res, reflect.ValueOf(error(&FailErr{idx})).Convert(errT))
			} else {
				res = append(res, reflect.Zero(errT))
			}
		}
		env.Log = append(env.Log, ex)
		return res
	})
	var opts []am.Arg
	if fs.Once {
		opts = append(opts, am.FuncOnce())
	}
	return am.NewFunc(fn.Interface(), opts...)
}

func (env *Env) InputArgs(ls []Label) (args []am.Arg, ids []int) {
	for _, l := range ls {
		env.Next++
		v := MkValue(l.Type, env.Next).Interface()
		ids = append(ids, env.Next)
		args = append(args, am.NamedSubtype(l.Name, v, l.Sub))
	}
	return
}

var ErrBuild = errors.New("build")
