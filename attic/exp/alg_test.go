package verifh

import (
	"fmt"
	"math/rand"
	"sort"
	"testing"

	"github.com/hashicorp/go-argmapper/internal/graph"
)

type N struct{ K int }

func (n *N) Hashcode() interface{} { return n.K }

func build(r *rand.Rand, n int, p float64, wmax int, loops bool, dag bool) (*graph.Graph, []*N, map[[2]int]int) {
	var g graph.Graph
	vs := make([]*N, n)
	perm := r.Perm(n)
	for _, i := range perm {
		vs[i] = &N{i}
		g.Add(vs[i])
	}
	w := map[[2]int]int{}
	type e struct{ a, b int }
	var es []e
	for a := 0; a < n; a++ {
		for b := 0; b < n; b++ {
			if a == b && !loops {
				continue
			}
			if dag && a >= b {
				continue
			}
			if r.Float64() < p {
				es = append(es, e{a, b})
			}
		}
	}
	r.Shuffle(len(es), func(i, j int) { es[i], es[j] = es[j], es[i] })
	for _, x := range es {
		wt := r.Intn(wmax + 1)
		g.AddEdgeWeighted(vs[x.a], vs[x.b], wt)
		w[[2]int{x.a, x.b}] = wt
	}
	return &g, vs, w
}

const inf = 1 << 30

func bellman(n int, w map[[2]int]int, src int) []int {
	d := make([]int, n)
	for i := range d {
		d[i] = inf
	}
	d[src] = 0
	for it := 0; it < n; it++ {
		for e, wt := range w {
			if d[e[0]] < inf && d[e[0]]+wt < d[e[1]] {
				d[e[1]] = d[e[0]] + wt
			}
		}
	}
	return d
}

func TestDijkstraFuzz(t *testing.T) {
	r := rand.New(rand.NewSource(3))
	bad := 0
	for it := 0; it < 200000; it++ {
		n := 2 + r.Intn(6)
		g, vs, w := build(r, n, 0.1+0.5*r.Float64(), 3, true, false)
		src := r.Intn(n)
		want := bellman(n, w, src)
		dist, edgeTo := g.Dijkstra(vs[src])
		for v := 0; v < n; v++ {
			if want[v] < inf {
				if dist[v] != want[v] {
					bad++
					if bad < 5 {
						fmt.Println("DIST MISMATCH", n, w, src, v, dist[v], want[v])
					}
				}
				p := g.EdgeToPath(vs[v], edgeTo)
				if p[0].(*N).K != src {
					bad++
					fmt.Println("PATH not from src")
				}
				sum := 0
				for i := 0; i+1 < len(p); i++ {
					wt, ok := w[[2]int{p[i].(*N).K, p[i+1].(*N).K}]
					if !ok {
						bad++
						fmt.Println("PATH uses non-edge")
					}
					sum += wt
				}
				if sum != want[v] {
					bad++
					fmt.Println("PATH sum mismatch")
				}
			} else {
				p := g.EdgeToPath(vs[v], edgeTo)
				for _, x := range p {
					if x.(*N).K == src {
						bad++
						if bad < 5 {
							fmt.Println("UNREACHABLE chain reaches src", n, w, src, v)
						}
					}
				}
			}
		}
	}
	fmt.Println("dijkstra bad:", bad)
}

func reach(n int, w map[[2]int]int, from int, block map[int]bool) map[int]bool {
	seen := map[int]bool{}
	var rec func(int)
	rec = func(v int) {
		for e := range w {
			if e[0] == v && !seen[e[1]] && e[1] != from {
				seen[e[1]] = true
				if !block[e[1]] {
					rec(e[1])
				}
			}
		}
	}
	rec(from)
	return seen
}

func TestTraversalFuzz(t *testing.T) {
	r := rand.New(rand.NewSource(5))
	bad := 0
	for it := 0; it < 100000; it++ {
		n := 2 + r.Intn(5)
		g, vs, w := build(r, n, 0.1+0.5*r.Float64(), 2, true, false)
		// DFS with decline set
		start := r.Intn(n)
		decl := map[int]bool{}
		for v := 0; v < n; v++ {
			if r.Intn(4) == 0 {
				decl[v] = true
			}
		}
		reported := map[int]int{}
		g.DFS(vs[start], func(v graph.Vertex, next func() error) error {
			k := v.(*N).K
			reported[k]++
			if decl[k] {
				return nil
			}
			return next()
		})
		// reference: reachable from start not passing through declined vertices (declined vertices reported but not expanded)
		want := map[int]bool{}
		{
			seen := map[int]bool{start: true}
			var rec func(int)
			rec = func(v int) {
				for e := range w {
					if e[0] == v && !seen[e[1]] {
						want[e[1]] = true
						if !decl[e[1]] {
							seen[e[1]] = true
							rec(e[1])
						}
					}
				}
			}
			rec(start)
		}
		for k := range want {
			if reported[k] == 0 {
				bad++
				if bad < 5 {
					fmt.Println("DFS missing", n, w, start, decl, reported)
				}
			}
		}
		for k, c := range reported {
			if !want[k] {
				bad++
				if bad < 5 {
					fmt.Println("DFS extra", k, n, w, start, decl, reported)
				}
			}
			if !decl[k] && c != 1 {
				bad++
				if bad < 5 {
					fmt.Println("DFS descends twice", k, c)
				}
			}
		}
		// SCC
		comps := g.StronglyConnected()
		compOf := map[int]int{}
		cnt := 0
		for ci, c := range comps {
			for _, v := range c {
				if _, dup := compOf[v.(*N).K]; dup {
					bad++
				}
				compOf[v.(*N).K] = ci
				cnt++
			}
		}
		if cnt != n {
			bad++
			fmt.Println("SCC count", cnt, n)
		}
		full := func(a int) map[int]bool {
			seen := map[int]bool{a: true}
			var rec func(int)
			rec = func(v int) {
				for e := range w {
					if e[0] == v && !seen[e[1]] {
						seen[e[1]] = true
						rec(e[1])
					}
				}
			}
			rec(a)
			return seen
		}
		for a := 0; a < n; a++ {
			ra := full(a)
			for b := 0; b < n; b++ {
				mutual := ra[b] && full(b)[a]
				if mutual != (compOf[a] == compOf[b]) {
					bad++
					if bad < 5 {
						fmt.Println("SCC mismatch", n, w, a, b)
					}
				}
			}
		}
		// Kahn: on dag and cyclic
		cyclic := false
		for a := 0; a < n; a++ {
			for e := range w {
				if e[0] == a && (e[1] == a || full(e[1])[a]) {
					cyclic = true
				}
			}
		}
		func() {
			defer func() {
				if rec := recover(); rec != nil {
					if !cyclic {
						bad++
						fmt.Println("Kahn panicked on DAG")
					}
				}
			}()
			L := g.KahnSort()
			if cyclic {
				bad++
				if bad < 5 {
					fmt.Println("Kahn accepted cyclic graph", n, w)
				}
				return
			}
			pos := map[int]int{}
			for i, v := range L {
				pos[v.(*N).K] = i
			}
			if len(pos) != n || len(L) != n {
				bad++
			}
			for e := range w {
				if pos[e[0]] >= pos[e[1]] {
					bad++
				}
			}
		}()
		_ = sort.Ints
	}
	// topo shortest path on single-rooted DAGs
	for it := 0; it < 50000; it++ {
		n := 2 + r.Intn(5)
		g, vs, w := build(r, n, 0.3+0.5*r.Float64(), 3, false, true)
		// single-rooted: every vertex >0 has an in-edge; ensure by adding edge from 0
		for v := 1; v < n; v++ {
			has := false
			for e := range w {
				if e[1] == v {
					has = true
				}
			}
			if !has {
				g.AddEdgeWeighted(vs[0], vs[v], 1+r.Intn(3))
				w[[2]int{0, v}] = 0
				for _, x := range []int{0} {
					_ = x
				}
			}
		}
		// recompute weights map from string? simpler: rebuild w for added edges
		// (weights for added edges unknown above; redo deterministically)
		L := g.KahnSort()
		d1, _ := g.TopoShortestPath(L)
		d2, _ := g.Dijkstra(vs[0])
		for v := 1; v < n; v++ {
			if d1[v] != d2[v] {
				bad++
				if bad < 5 {
					fmt.Println("TOPO mismatch", n, w, v, d1[v], d2[v])
				}
			}
		}
	}
	fmt.Println("traversal bad:", bad)
}
