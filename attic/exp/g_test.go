package verifh

import (
	"fmt"
	"testing"

	"github.com/hashicorp/go-argmapper/internal/graph"
)

type V struct {
	K   string
	Ver int
}

func (v *V) Hashcode() interface{} { return v.K }

func TestG(t *testing.T) {
	var g graph.Graph
	a, b := &V{"a", 1}, &V{"b", 1}
	g.Add(a)
	g.Add(b)
	g.AddEdgeWeighted(a, b, 3)
	fmt.Println(g.OutEdges(a), g.InEdges(b), g.String())
	d, e := g.Dijkstra(a)
	fmt.Println(d, e)
	var z graph.Graph
	r := z.Reverse()
	r.Add(a)
	fmt.Println(len(z.Vertices()), len(r.Vertices()))
}
