package exp

import (
	"fmt"
	"reflect"
	"testing"

	am "github.com/hashicorp/go-argmapper"
	"github.com/hashicorp/go-hclog"
)

func init() { hclog.L().SetLevel(hclog.Error) }

type T1 struct{ ID int }
type T2 struct{ ID int }
type T3 struct{ ID int }
type T4 struct{ ID int }

func try(name string, f func()) {
	defer func() {
		if r := recover(); r != nil {
			fmt.Printf("%s: PANIC %v\n", name, r)
		}
	}()
	f()
}

func TestTwoSameTypePositional(t *testing.T) {
	try("func(a,b int)", func() {
		f, err := am.NewFunc(func(a, b int) int { return a + b })
		fmt.Println("newfunc err", err)
		r := f.Call(am.Typed(3))
		fmt.Println("err", r.Err())
	})
}

func TestTypedSubtypePlusNamed(t *testing.T) {
	try("typed-subtype+named", func() {
		f, err := am.NewFunc(func(in struct {
			am.Struct
			A T1
		}) int { return in.A.ID })
		fmt.Println("newfunc err", err)
		r := f.Call(am.TypedSubtype(T1{7}, "s"))
		fmt.Println("err", r.Err(), r.Len())
	})
}

func TestGenErr(t *testing.T) {
	try("gen err", func() {
		f, _ := am.NewFunc(func(a T1) int { return a.ID })
		r := f.Call(am.Typed(T1{1}), am.ConverterGen(func(v am.Value) (*am.Func, error) { return nil, fmt.Errorf("nope") }))
		fmt.Println("err", r.Err())
	})
}

func TestNilConv(t *testing.T) {
	try("Converter(nil)", func() {
		f, _ := am.NewFunc(func(a T1) int { return a.ID })
		r := f.Call(am.Typed(T1{1}), am.Converter(nil))
		fmt.Println("err", r.Err())
	})
	try("Converter(5)", func() {
		f, _ := am.NewFunc(func(a T1) int { return a.ID })
		r := f.Call(am.Typed(T1{1}), am.Converter(5))
		fmt.Println("err", r.Err())
	})
	try("NewFunc(nil)", func() {
		_, err := am.NewFunc(nil)
		fmt.Println("err", err)
	})
	try("ConverterFunc(nil)", func() {
		f, _ := am.NewFunc(func(a T1) int { return a.ID })
		r := f.Call(am.Typed(T1{1}), am.ConverterFunc(nil))
		fmt.Println("err", r.Err())
	})
	try("Typed(nil)", func() {
		f, _ := am.NewFunc(func(a T1) int { return a.ID })
		r := f.Call(am.Typed(T1{1}), am.Typed(nil), am.Named("x", nil), am.NamedSubtype("x", nil, "s"), am.TypedSubtype(nil, "s"))
		fmt.Println("err", r.Err())
	})
	try("ConverterGen(nil)", func() {
		f, _ := am.NewFunc(func(a T1) int { return a.ID })
		r := f.Call(am.Typed(T1{1}), am.ConverterGen(nil))
		fmt.Println("err", r.Err())
	})
	try("FilterInput(nil) redefine", func() {
		f, _ := am.NewFunc(func(a T1) int { return a.ID })
		_, err := f.Redefine(am.FilterInput(nil), am.FilterOutput(nil))
		fmt.Println("err", err)
	})
	try("Logger(nil)", func() {
		f, _ := am.NewFunc(func(a T1) int { return a.ID })
		r := f.Call(am.Typed(T1{1}), am.Logger(nil))
		fmt.Println("err", r.Err())
	})
	_ = reflect.TypeOf
}
