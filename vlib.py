#!/usr/bin/env python3
"""Shared machinery of the checks: build the harness from /repo's working tree,
run TLC (model checking and trace validation), cut replays, write evidence.

The Python side is plumbing only.  Property predicates live in the TLA+ modules
under spec/ and TLC is the only judge; the Go harness is a dumb driver/recorder.
"""
import hashlib
import json
import os
import re
import shutil
import subprocess
import sys
import tempfile
import time

VERIF = os.path.dirname(os.path.abspath(__file__))
REPO = os.environ.get("VERIF_REPO", "/repo")
SPEC = os.path.join(VERIF, "spec")
HARNESS = os.path.join(VERIF, "harness")
# (VERIF_OUT_DIR redirects the outputs of development runs against patched scratch worktrees)
EVID = os.path.join(os.environ.get("VERIF_OUT_DIR", VERIF), "evidence")
REPLAYS = os.path.join(os.environ.get("VERIF_OUT_DIR", VERIF), "replays")
NCPU = os.cpu_count() or 4

GOENV = dict(os.environ, GOFLAGS="-mod=mod", GOPROXY="off", GOSUMDB="off", GOTOOLCHAIN="local")


class Infra(Exception):
    """Something other than the property failed (build, TLC crash, time-out): exit 2, never a VIOLATION."""


def log(*a):
    print(*a, file=sys.stderr, flush=True)


class Work:
    """Scratch directory holding a copy of spec/ and the harness binary; removed on exit."""

    def __init__(self, keep=False):
        self.dir = tempfile.mkdtemp(prefix="verif-")
        self.keep = keep
        for f in os.listdir(SPEC):
            if f.endswith((".tla", ".cfg", ".json")):
                shutil.copy(os.path.join(SPEC, f), self.dir)
        self.drive = None

    def path(self, *p):
        return os.path.join(self.dir, *p)

    def close(self):
        if self.keep:
            log("work dir kept:", self.dir)
        else:
            shutil.rmtree(self.dir, ignore_errors=True)

    def __enter__(self):
        return self

    def __exit__(self, *a):
        self.close()

    # ---------------------------------------------------------------- harness
    def build(self, tags="verif", race=False):
        """Build the driver from /repo's *current working tree* (replace => /repo)."""
        src = self.path("harness")
        if not os.path.isdir(src):
            shutil.copytree(HARNESS, src, ignore=shutil.ignore_patterns("bin", "go.sum"))
            gomod = open(os.path.join(src, "go.mod")).read().replace("=> /repo", "=> " + REPO)
            open(os.path.join(src, "go.mod"), "w").write(gomod)
            shutil.copy(os.path.join(REPO, "go.sum"), os.path.join(src, "go.sum"))
        out = self.path("drive-race" if race else "drive")
        cmd = ["go", "build", "-tags", tags, "-o", out]
        if race:
            cmd.insert(2, "-race")
        cmd.append("./cmd/drive")
        t0 = time.time()
        r = subprocess.run(cmd, cwd=src, env=GOENV, capture_output=True, text=True)
        if r.returncode != 0:
            raise Infra("harness build failed:\n" + r.stdout + r.stderr)
        log("built %s in %.1fs" % (os.path.basename(out), time.time() - t0))
        if not race:
            self.drive = out
        return out

    def run_drive(self, args, timeout=1800, binary=None):
        r = subprocess.run([binary or self.drive] + args, cwd=self.dir, capture_output=True, text=True, timeout=timeout)
        if r.returncode != 0:
            raise Infra("drive %s failed (%d):\n%s%s" % (args[0], r.returncode, r.stdout[-2000:], r.stderr[-2000:]))
        return r

    # ---------------------------------------------------------------- TLC
    def tlc(self, module, cfg, workers=1, timeout=900, extra=None, simulate=None, env=None, heap=None, allow_timeout=False):
        """Run TLC in the work dir; return a dict with counts, violation info and raw output."""
        md = tempfile.mkdtemp(prefix="md-", dir=self.dir)
        cmd = ["timeout", str(timeout), "tlc", "-workers", str(workers), "-noGenerateSpecTE", "-metadir", md,
               "-config", cfg]
        if simulate:
            cmd += ["-simulate", simulate]
        if extra:
            cmd += extra
        cmd.append(module)
        e = dict(os.environ)
        if env:
            e.update(env)
        t0 = time.time()
        r = subprocess.run(cmd, cwd=self.dir, capture_output=True, text=True, env=e)
        out = r.stdout + r.stderr
        shutil.rmtree(md, ignore_errors=True)
        res = {"rc": r.returncode, "out": out, "wall": time.time() - t0, "cmd": " ".join(cmd[2:])}
        m = re.findall(r"(\d+) states generated, (\d+) distinct states found", out)
        if m:
            res["generated"], res["distinct"] = int(m[-1][0]), int(m[-1][1])
        m = re.search(r"The depth of the complete state graph search is (\d+)", out)
        if m:
            res["depth"] = int(m.group(1))
        res["violated"] = re.findall(r"Invariant (\w+) is violated", out)
        res["prop_violated"] = re.findall(r"(?:Temporal|Action) propert\w+ (\w+) (?:was|is) violated", out) or \
            (["<temporal>"] if "Temporal properties were violated" in out else [])
        res["post_false"] = "Postcondition" in out and "is false" in out
        res["deadlock"] = "Deadlock reached" in out
        res["ok"] = ("Model checking completed. No error has been found" in out) or (simulate is not None and r.returncode == 0)
        if r.returncode == 124 and not allow_timeout:
            raise Infra("TLC timed out after %ds: %s" % (timeout, res["cmd"]))
        fatal = [l for l in out.splitlines() if l.startswith("Error:") and "Invariant" not in l and "Postcondition" not in l
                 and "propert" not in l and "Deadlock" not in l and "behavior up to" not in l.lower()]
        res["fatal"] = fatal
        return res


def last_alias_state(out):
    """Parse the last state of a counterexample printed through ALIAS Pos."""
    line = sid = None
    for m in re.finditer(r"/\\ line = (\d+)\s*\n/\\ sid = (-?\d+)", out):
        line, sid = int(m.group(1)), int(m.group(2))
    return line, sid


def cut_execution(trace_lines, line):
    """Return (start, end) indices (0-based, end exclusive) of the execution containing 1-based trace line `line`."""
    i = min(line - 1, len(trace_lines) - 1)
    # the violating state was reached by consuming line (line-1); step back to its reset
    i = max(0, line - 2)
    while i > 0 and '"ev":"reset"' not in trace_lines[i][:20]:
        i -= 1
    j = i + 1
    while j < len(trace_lines) and '"ev":"reset"' not in trace_lines[j][:20]:
        j += 1
    return i, j


def write_json(path, obj):
    tmp = path + ".tmp"
    with open(tmp, "w") as f:
        json.dump(obj, f, indent=1, sort_keys=False)
    os.replace(tmp, path)


def sha(s):
    return hashlib.sha1(s.encode()).hexdigest()[:10]


def load_known():
    p = os.path.join(VERIF, "known_findings.json")
    if not os.path.exists(p):
        return {"open": [], "fixed": []}
    return json.load(open(p))


class Evidence:
    def __init__(self, prop, tier, seed, level="model_checking"):
        self.t0 = time.time()
        self.doc = {
            "property_id": prop, "tier": tier, "seed": seed, "level": level,
            "coverage": {"states": 0, "transitions": 0, "traces_validated_against_impl": 0, "samples": [],
                         "evaluations": 0, "distinct_nontrivial": 0, "rule": "", "exhaustive": False,
                         "checker_cmd": "", "runs": []},
            "assumptions": [], "wall_s": 0.0, "violations": 0,
        }

    @property
    def cov(self):
        return self.doc["coverage"]

    def add_tlc(self, name, res, kind):
        gen = res.get("generated", 0)
        dist = res.get("distinct", 0)
        self.cov["states"] += dist
        self.cov["transitions"] += gen
        self.cov["runs"].append({"name": name, "kind": kind, "generated": gen, "distinct": dist,
                                 "depth": res.get("depth"), "wall_s": round(res["wall"], 1), "cmd": res["cmd"]})
        if not self.cov["checker_cmd"]:
            self.cov["checker_cmd"] = res["cmd"]

    def sample(self, s, limit=6):
        if len(self.cov["samples"]) < limit:
            self.cov["samples"].append(s)

    def write(self):
        self.doc["wall_s"] = round(time.time() - self.t0, 1)
        os.makedirs(EVID, exist_ok=True)
        write_json(os.path.join(EVID, self.doc["property_id"] + ".json"), self.doc)
