#!/bin/sh
# Offline setup: verify the tool chain and pre-parse every specification module.
# Nothing is cached: each check rebuilds the harness from /repo's working tree.
set -e
cd "$(dirname "$0")"
export GOFLAGS=-mod=mod GOPROXY=off GOSUMDB=off GOTOOLCHAIN=local
command -v tlc >/dev/null || { echo "tlc missing"; exit 1; }
command -v go >/dev/null || { echo "go missing"; exit 1; }
command -v tlapm >/dev/null || { echo "tlapm missing"; exit 1; }
python3 -c 'import json,sys' 
tmp=$(mktemp -d)
trap 'rm -rf "$tmp"' EXIT
cp spec/*.tla "$tmp"/
( cd "$tmp" && for m in *.tla; do
    case "$m" in
      *Proof.tla) # proof modules extend TLAPS.tla, which only tlapm knows: re-check the proofs instead of parsing with SANY
        timeout 900 tlapm --threads 16 --cleanfp "$m" >"$tmp/tlapm.out" 2>&1 && grep -q "obligations proved" "$tmp/tlapm.out" \
          || { tail -20 "$tmp/tlapm.out"; echo "tlapm failed on $m"; exit 1; }
        continue ;;
    esac
    tla-sany "$m" >"$tmp/sany.out" 2>&1 || { cat "$tmp/sany.out"; echo "SANY failed on $m"; exit 1; }
  done )
mkdir -p "$tmp/h" && cp -r harness/. "$tmp/h/" && cp /repo/go.sum "$tmp/h/go.sum"
( cd "$tmp/h" && go build -tags verif -o "$tmp/drive" ./cmd/drive )
echo "setup ok"
