#!/usr/bin/env python3
"""check.py <property> [--tier quick|thorough] [--seed N] [--keep]
   check.py --replay <file>
   check.py selftest

Exit 0: the property held on everything explored (KNOWN-FINDING lines possible).
Exit 1: a line "VIOLATION property=<id> replay=<path>" was printed.
Exit 2: infrastructure problem (build, TLC crash, time-out) - never a verdict.
"""
import argparse
import json
import os
import re
import sys
import time

sys.path.insert(0, os.path.dirname(os.path.abspath(__file__)))
import vlib
from vlib import Work, Infra, Evidence, log

# --------------------------------------------------------------------------- known findings


def match_known(prop, scn, execution, invariant=None):
    """Structural matchers of the *open* entries of known_findings.json: the input shape (scenario family, mode) and
    the violated invariant identify a finding; anything else is a new violation."""
    for k in vlib.load_known().get("open", []):
        if prop not in k.get("properties", []):
            continue
        m = k.get("matcher", {})
        if m.get("invariant") and m["invariant"] != invariant:
            continue
        fam = m.get("family")
        if fam and not scn.get("family", "").startswith(fam):
            continue
        mode = m.get("mode")
        if mode and scn.get("mode") != mode:
            continue
        return k
    return None


# --------------------------------------------------------------------------- trace validation


def write_cfg(work, name, spec, invariants, constants=None, post="Accepted", alias="Pos", props=None, extra=""):
    lines = ["SPECIFICATION " + spec]
    if constants:
        lines.append("CONSTANTS")
        for k, v in constants.items():
            lines.append("  %s %s" % (k, v) if str(v).startswith("<-") else "  %s = %s" % (k, v))
    for i in invariants:
        lines.append("INVARIANT " + i)
    for p in props or []:
        lines.append("PROPERTY " + p)
    if post:
        lines.append("POSTCONDITION " + post)
    if alias:
        lines.append("ALIAS " + alias)
    lines.append("CHECK_DEADLOCK FALSE")
    if extra:
        lines.append(extra)
    open(work.path(name), "w").write("\n".join(lines) + "\n")
    return name


def trace_validate(work, prop, invariants, trace_file, ev, module="ContractTrace.tla", label="trace"):
    """Validate the ndjson trace against the invariants.  Returns 0 or 1 (VIOLATION printed)."""
    path = work.path(trace_file)
    lines = open(path).read().splitlines()
    nexec = sum(1 for l in lines if l.startswith('{"ev":"reset"'))
    known_reported = set()
    # executions of an input shape for which an open finding is recorded are judged on their own (by the finding's
    # invariant only, which no other execution can violate), so that the large remainder is validated once
    for k in vlib.load_known().get("open", []):
        fam, kinv = k.get("matcher", {}).get("family"), k.get("matcher", {}).get("invariant")
        if prop not in k.get("properties", []) or not fam or kinv not in invariants:
            continue
        mine, rest, take = [], [], False
        for x in lines:
            if x.startswith('{"ev":"reset"'):
                take = json.loads(x)["scn"].get("family", "").startswith(fam)
            (mine if take else rest).append(x)
        if not mine:
            continue
        kfile = "known_%s_%s" % (k["id"], trace_file)
        open(work.path(kfile), "w").write("\n".join(mine) + "\n")
        cfg = write_cfg(work, "CTK_%s.cfg" % prop, "Spec", [kinv], constants={"TraceFile": '"%s"' % kfile})
        res = work.tlc(module, cfg, workers=1, timeout=1200)
        ev.add_tlc("%s-known-%s" % (label, k["id"]), res, "trace_validation")
        if res["violated"]:
            print("KNOWN-FINDING: property=%s %s" % (prop, k["what"]), flush=True)
            known_reported.add(k["id"])
            ev.doc.setdefault("known_findings_observed", []).append(k["id"])
        elif not (res["ok"] and not res["post_false"]):
            raise Infra("trace validation (known finding %s) did not complete:\n%s" % (k["id"], res["out"][-2000:]))
        # every other invariant applies to these executions like to any other
        others = [i for i in invariants if i != kinv]
        if others and trace_validate(work, prop, others, kfile, ev, module=module, label=label + "-known-rest"):
            return 1
        lines = rest
        open(path, "w").write("\n".join(lines) + "\n")
    for iteration in range(40):
        cfg = write_cfg(work, "CT_%s.cfg" % prop, "Spec", invariants, constants={"TraceFile": '"%s"' % trace_file})
        res = work.tlc(module, cfg, workers=1, timeout=3000)
        ev.add_tlc("%s-validation-%d" % (label, iteration), res, "trace_validation")
        if res["violated"]:
            line, sid = vlib.last_alias_state(res["out"])
            if line is None:
                raise Infra("cannot locate the violating state:\n" + res["out"][-3000:])
            i, j = vlib.cut_execution(lines, line)
            execution = [json.loads(x) for x in lines[i:j]]
            scn = execution[0].get("scn", {})
            k = match_known(prop, scn, execution, res["violated"][0])
            if k is not None:
                if k["id"] not in known_reported:
                    print("KNOWN-FINDING: property=%s %s" % (prop, k["what"]), flush=True)
                    known_reported.add(k["id"])
                    ev.doc.setdefault("known_findings_observed", []).append(k["id"])
                # drop every execution of the finding's input shape (or of this scenario) and go on
                fam = k.get("matcher", {}).get("family")
                keep, skip = [], False
                for x in lines:
                    if x.startswith('{"ev":"reset"'):
                        r0 = json.loads(x)
                        skip = r0["scn"].get("family", "").startswith(fam) if fam else r0["sid"] == sid
                    if not skip:
                        keep.append(x)
                lines = keep
                open(path, "w").write("\n".join(lines) + "\n")
                continue
            os.makedirs(vlib.REPLAYS, exist_ok=True)
            rp = os.path.join(vlib.REPLAYS, "%s-%s.json" % (prop, vlib.sha(json.dumps(scn, sort_keys=True))))
            vlib.write_json(rp, {"property": prop, "invariant": res["violated"][0], "scenario": scn,
                                 "events": execution, "trace_line": line, "seed": ev.doc["seed"],
                                 "how": "check.py --replay " + rp})
            ev.doc["violations"] += 1
            ev.cov["traces_validated_against_impl"] += nexec
            print("VIOLATION property=%s replay=%s" % (prop, rp), flush=True)
            return 1
        if res["ok"] and not res["post_false"]:
            ev.cov["traces_validated_against_impl"] += nexec
            return 0
        raise Infra("trace validation did not complete:\n" + res["out"][-3000:])
    raise Infra("too many known-finding iterations")


def summarize_trace(path, ev, nontrivial_rule):
    """Counts for the evidence: executions, distinct scenarios, non-trivial ones; a few samples."""
    nexec, sids, nontriv = 0, set(), set()
    cur = None
    kinds = {}
    sample_budget = 3
    cur_events = []
    for l in open(path):
        e = json.loads(l)
        if e["ev"] == "reset":
            if cur is not None and sample_budget > 0 and len(cur_events) > 2:
                ev.sample({"scenario": cur, "events": cur_events[1:6]})
                sample_budget -= 1
            cur = e["scn"]
            cur_events = []
            nexec += 1
            sids.add(e["sid"])
        cur_events.append({k: v for k, v in e.items() if k not in ("scn", "fin", "fout")})
        if e["ev"] == "exec":
            nontriv.add(cur["sid"])
        if e["ev"] == "ret":
            kinds[e["kind"]] = kinds.get(e["kind"], 0) + 1
    ev.cov["evaluations"] += nexec
    ev.cov["distinct_nontrivial"] += len(nontriv)
    ev.cov["rule"] = nontrivial_rule
    ev.cov.setdefault("outcome_kinds", {})
    for k, v in kinds.items():
        ev.cov["outcome_kinds"][k] = ev.cov["outcome_kinds"].get(k, 0) + v
    ev.cov["distinct_scenarios"] = ev.cov.get("distinct_scenarios", 0) + len(sids)
    return nexec


# --------------------------------------------------------------------------- resolver-level properties
# random families: (profile, quick count, thorough count)

RESOLVER = {
    # (the C03 family inside the C01 family stays at its quick size in both tiers: its thorough size is explored by C03's own check)
    "C01": {"inv": ["C01"], "reps": (3, 6), "family": "C01", "family_size": "1",
            "random": [("general", 2500, 25000), ("wild", 1500, 15000), ("single", 800, 8000), ("multi", 800, 8000),
                       ("redef", 400, 5000), ("convert", 400, 5000)]},
    "C02": {"inv": ["C02"], "reps": (3, 6), "family": "C02", "life": True,
            "random": [("general", 2500, 25000), ("multi", 2000, 20000), ("nosub", 1000, 10000), ("convert", 500, 6000)]},
    "C03": {"inv": ["C03"], "reps": (4, 10), "family": "C03", "random": [("general", 1500, 15000), ("wild", 1000, 10000)]},
    "C04": {"inv": ["C04"], "reps": (3, 6), "family": "C04", "life": True,
            "random": [("fail", 3500, 35000), ("wild", 1000, 10000), ("redeffail", 600, 6000)]},
    "C05": {"inv": ["C05", "C05gen"], "minv": ["C05"], "reps": (5, 12), "family": "C05",
            "random": [("single", 2000, 25000), ("namedsingle", 2500, 40000), ("multi", 1200, 15000), ("general", 800, 10000), ("gens", 800, 8000)]},
    "C06": {"inv": ["C06"], "reps": (3, 6), "family": "C06", "life": True,
            "random": [("wild", 3000, 30000), ("general", 1500, 15000), ("multi", 1000, 10000), ("redef", 500, 5000),
                       ("convert", 500, 5000)]},
    "C07": {"inv": ["C07", "C07h"], "minv": ["C07"], "reps": (25, 100), "family": "C07", "random": [("general", 300, 3000)], "model": (200, 2000)},
    "C08": {"inv": ["C08", "C08k", "C01", "C04", "C06"], "minv": ["C08"], "reps": (3, 6), "family": "C08", "life": True, "linv": ["C08life"], "random": [("redef", 2500, 30000), ("redeffail", 800, 10000)]},
    "C10": {"inv": ["C10", "C01", "C02", "C04", "C05", "C05gen", "C06"], "minv": ["C10"], "reps": (4, 8), "family": "C10",
            "random": [("convcall", 3500, 35000), ("convert", 800, 8000), ("convgens", 600, 6000)], "model": (600, 6000)},
    "C16": {"inv": ["C16", "C03", "OptsIntact"], "minv": ["C16"], "reps": (6, 12), "family": "C16", "random": [("wild", 800, 8000), ("general", 500, 5000)], "model": (300, 3000)},
    "C13": {"inv": ["C13"], "reps": (2, 4), "family": "C13", "life": True,
            "random": [("general", 2500, 25000), ("nosub", 1500, 15000), ("multi", 1000, 10000), ("wild", 800, 8000)]},
}


def eligible_for_model(s):
    """Scenario features the Resolver model does not cover (they are still judged on real traces)."""
    # (the model has no notion of a returned value being an error: scenarios converting to the error type are judged
    #  on the real traces only)
    odd = {"E", "PE"}
    if any(l["type"] in odd for l in s["target"]["in"] + s["inputs"]):
        return False
    # a body that fails on its second execution only: the model's functions fail always or never
    if any(c.get("failOn") for c in s["convs"]):
        return False
    return True


def canon(kind, log, inputs, valtok):
    return json.dumps([kind, log, sorted(set(json.dumps(x, sort_keys=True) for x in inputs)), valtok])


def parse_model_output(out):
    """OBS / SCN lines printed by TLC (MC_Resolver!EmitObs / EmitScn)."""
    import re
    model, scns = {}, []
    for l in out.splitlines():
        if l.startswith('<<"OBS"') or l.startswith('<<"SCN"'):
            m = re.match(r'<<"(OBS|SCN)", "(.*)">>$', l.strip())
            if not m:
                continue
            o = json.loads(json.loads('"' + m.group(2) + '"'))
            if m.group(1) == "SCN":
                scns.append(o)
            else:
                model.setdefault(o["sid"], set()).add(
                    canon(o["kind"], [[e["fn"], e["args"], e["outs"]] for e in o["log"]], o["inputs"], o["valtok"]))
    return model, scns


def real_observations(trace_path):
    real = {}
    cur = None
    for l in open(trace_path):
        e = json.loads(l)
        if e["ev"] == "reset":
            cur = {"sid": e["sid"], "log": [], "nconvs": len(e["scn"]["convs"])}
        elif e["ev"] == "reset":
            pass
        elif e["ev"] == "exec" and e["phase"] == 1:
            fn = e["fn"]
            if fn > cur["nconvs"]:  # a generated converter: named by its labels, as in the model
                fn = ["g", e["fin"][0]["name"], e["fin"][0]["type"], e["fin"][0]["sub"], e["fout"][0]["type"]]
            cur["log"].append([fn, e["args"], e["outs"]])
        elif e["ev"] == "redef":
            kind = "redef" if e["ok"] else ("unsat" if e["detail"].startswith("unsat") else "redeferr")
            real.setdefault(cur["sid"], set()).add(canon(kind, [], e["inputs"], 0))
        elif e["ev"] == "ret" and e["phase"] == 1:
            kind = e["kind"]
            if kind == "nilerr":  # typed-nil error value: the model does not distinguish error shapes
                kind = "targeterr" if cur["log"] and cur["log"][-1][0] == 0 else "converr"
            real.setdefault(cur["sid"], set()).add(canon(kind, cur["log"], [], e["valtok"] if e["kind"] == "ok" else 0))
    return real


def model_stage(w, prop, module, cfgname, invariants, constants, ev, timeout=2700):
    """Exhaustive TLC run of the Resolver over the scenario set: design-level invariants over all
    tie-breaks + emission of the outcome set of every scenario."""
    write_cfg(w, cfgname, "Spec", invariants + ["EmitObs", "EmitScn"], constants=constants, post=None, alias=None)
    res = w.tlc(module, cfgname, workers=vlib.NCPU, timeout=timeout)
    ev.add_tlc("resolver-model", res, "model_checking")
    model, scns = parse_model_output(res["out"])
    if not res["ok"] and not res["violated"]:
        raise Infra("Resolver model checking did not complete:\n" + res["out"][-3000:])
    return res, model, scns


def conformance(model, real, ev):
    """Direction B: is every observation of the real code one the model allows?  Drift is reported
    in the evidence and triggers amplification; by itself it is never a violation."""
    drift, equal, subset, toobig = [], 0, 0, 0
    for sid, ms in model.items():
        if any('"toobig"' in x for x in ms):
            toobig += 1
            continue
        rs = real.get(sid, set())
        if not rs <= ms:
            drift.append(sid)
        elif rs == ms:
            equal += 1
        else:
            subset += 1
    ev.cov["conformance"] = {"scenarios_with_model_outcome_set": len(model), "real_equals_model": equal,
                             "real_subset_of_model": subset, "drift": len(drift), "drift_sids": drift[:20],
                             "model_too_big": toobig}
    return drift


def life_stage(w, prop, invariants, tier, seed, ev):
    """Histories of Call / Convert / Redefine steps on shared objects: enumerated by TLC (Lifecycle.tla),
    replayed by the harness on one set of real objects per history, judged by ContractTrace."""
    import re
    q = tier == "quick"
    consts = {"MaxLen": "2" if q else "3", "Size": "1" if q else "2", "Small": "FALSE" if q else "TRUE"}
    # the abstract life cycle (memo / execution counts) without VIEW
    write_cfg(w, "L_abs.cfg", "Spec", ["OnceAtMostOnce"], constants={"MaxLen": "2", "Size": "2", "Small": "FALSE"}, post=None, alias=None, props=["RedefinePure"])
    res = w.tlc("Lifecycle.tla", "L_abs.cfg", workers=vlib.NCPU, timeout=900)
    ev.add_tlc("lifecycle-abstract", res, "model_checking")
    if not res["ok"]:
        raise Infra("Lifecycle model checking failed:\n" + res["out"][-2500:])
    write_cfg(w, "L_enum.cfg", "Spec", ["EmitHist"], constants=consts, post=None, alias=None, extra="VIEW HView")
    res = w.tlc("Lifecycle.tla", "L_enum.cfg", workers=vlib.NCPU, timeout=1800)
    ev.add_tlc("lifecycle-enumeration", res, "model_checking")
    outs = [res["out"]]
    if not q:  # thorough: also every history of length 2 over the full step alphabet
        write_cfg(w, "L_enum2.cfg", "Spec", ["EmitHist"], constants={"MaxLen": "2", "Size": "2", "Small": "FALSE"}, post=None, alias=None, extra="VIEW HView")
        res2 = w.tlc("Lifecycle.tla", "L_enum2.cfg", workers=vlib.NCPU, timeout=1800)
        ev.add_tlc("lifecycle-enumeration-len2", res2, "model_checking")
        outs.append(res2["out"])
    if True:  # plus a sample of longer histories
        write_cfg(w, "L_sim.cfg", "Spec", ["EmitHist"], constants={"MaxLen": "4", "Size": "2", "Small": "FALSE"}, post=None, alias=None)
        sim = w.tlc("Lifecycle.tla", "L_sim.cfg", workers=1, timeout=600, simulate="num=12", extra=["-depth", "5", "-seed", str(seed)])
        ev.add_tlc("lifecycle-simulation", sim, "simulation")
        outs.append(sim["out"])
    origs, twins = {}, {}
    for out in outs:
        for ln in out.splitlines():
            m = re.match(r'<<"HIST", "(.*)">>$', ln.strip())
            if not m:
                continue
            h = json.loads(json.loads('"' + m.group(1) + '"'))
            key = json.dumps([h["convs"], [dict(st, op="redefine" if st["op"] == "skip" else st["op"]) for st in h["steps"]]], sort_keys=True)
            (twins if h["twinOf"] else origs)[key] = h
    hists = []
    for key, h in origs.items():
        h["hid"] = len(hists) + 1
        hists.append(h)
        if key in twins:
            t = twins[key]
            t["hid"] = len(hists) + 1
            hists.append(t)
    if not hists:
        raise Infra("TLC emitted no histories:\n" + outs[0][-2000:])
    form = os.environ.get("VERIF_LIFE_FORM")
    if form:  # same histories over functions of another form (e.g. assembled with BuildFunc)
        for h in hists:
            for fsp in h["targets"] + h["convs"]:
                fsp["form"] = form
    vlib.write_json(w.path("histories.json"), hists)
    r = w.run_drive(["life", "-in", "histories.json", "-reps", "1" if q else "2", "-seed", str(seed), "-out", "life.ndjson"], timeout=3000)
    log(r.stderr.strip())
    ev.cov.setdefault("histories", 0)
    ev.cov["histories"] += len(hists)
    ev.sample({"history": {k: hists[min(7, len(hists) - 1)][k] for k in ("convs", "steps", "twinOf")}})
    return trace_validate(w, prop, invariants, "life.ndjson", ev, label="histories")


def run_life(prop, tier, seed, keep=False):
    ev = Evidence(prop, tier, seed)
    inv = {"C09": ["C09", "C09twin", "C06", "C01", "C08life"], "C11": ["C11", "C04", "C01", "C06"]}[prop]
    with Work(keep) as w:
        w.build()
        rc = life_stage(w, prop, inv, tier, seed, ev)
        if rc == 0 and prop == "C09":
            # Redefine inside ordinary scenarios (random redefine scenarios, follow-up call included)
            n = 1500 if tier == "quick" else 20000
            w.run_drive(["gen", "-profile", "redef", "-n", str(n), "-seed", str(seed), "-out", "scenarios.json"])
            w.run_drive(["gen", "-profile", "wild", "-n", str(n), "-seed", str(seed + 3), "-sid0", str(n + 1), "-out", "scenarios2.json"])
            # ... and with converter generators (a generated converter is planned with like a supplied one: it must not run either)
            w.run_drive(["gen", "-profile", "redefgen", "-n", str(n), "-seed", str(seed + 5), "-sid0", str(2 * n + 1), "-out", "scenarios3.json"])
            # ... and same-named values with and without subtypes, mostly without an input filter (the name discounts make a
            # plan through a converter look cheaper than asking for the value: the converter is planned with, never run)
            w.run_drive(["gen", "-profile", "redefsub", "-n", str(n), "-seed", str(seed + 7), "-sid0", str(3 * n + 1), "-out", "scenarios4.json"])
            sub = json.load(open(w.path("scenarios4.json")))
            for i, x in enumerate(sub):
                if i % 4:
                    x["hasFilter"], x["filterIn"] = False, []
            allscn = json.load(open(w.path("scenarios.json"))) + [x for x in json.load(open(w.path("scenarios2.json"))) if x["mode"] == "redefine"] \
                + json.load(open(w.path("scenarios3.json"))) + sub
            vlib.write_json(w.path("scenarios.json"), allscn)
            r = w.run_drive(["run", "-in", "scenarios.json", "-reps", "3", "-seed", str(seed), "-out", "trace.ndjson"])
            log(r.stderr.strip())
            summarize_trace(w.path("trace.ndjson"), ev, "")
            rc = trace_validate(w, prop, ["C09", "C06", "C01", "OptsIntact"], "trace.ndjson", ev, label="redefine-scenarios")
        if rc == 0 and prop == "C09":
            # everything given to NewFunc: an option-less Redefine, then an option-less Call (what planning prepared for itself
            # must not be what the call then uses; the call must behave as the same call without the Redefine: C02 / C05 / C06)
            n = 1200 if tier == "quick" else 12000
            w.run_drive(["gen", "-profile", "general", "-n", str(n), "-seed", str(seed + 9), "-out", "scenarios5.json"])
            allc = [dict(x, allCtor=True, ndef=len(x["inputs"])) for x in json.load(open(w.path("scenarios5.json"))) if x["mode"] == "call" and not x.get("bad")]
            vlib.write_json(w.path("scenarios5.json"), allc)
            r = w.run_drive(["run", "-in", "scenarios5.json", "-reps", "2", "-seed", str(seed), "-out", "trace5.ndjson"])
            log(r.stderr.strip())
            rc = trace_validate(w, prop, ["C09", "C06", "C01", "C02", "C05"], "trace5.ndjson", ev, label="all-at-construction")
        if rc == 0 and prop == "C11":
            # run-once functions of every form inside ordinary scenarios (a converter needed several times in one call)
            n = 2500 if tier == "quick" else 25000
            w.run_drive(["gen", "-profile", "oncey", "-n", str(n), "-seed", str(seed), "-out", "scenarios.json"])
            r = w.run_drive(["run", "-in", "scenarios.json", "-reps", "3", "-seed", str(seed), "-out", "trace.ndjson"])
            log(r.stderr.strip())
            summarize_trace(w.path("trace.ndjson"), ev, "")
            rc = trace_validate(w, prop, ["C11", "C06", "C01", "C04"], "trace.ndjson", ev, label="once-scenarios")
        if rc == 0 and prop == "C11":
            # a run-once TARGET used through its redefinition (three calls) and then called directly: one execution in all
            n = 600 if tier == "quick" else 6000
            w.run_drive(["gen", "-profile", "onceredef", "-n", str(n), "-seed", str(seed + 11), "-out", "scenarios.json"])
            r = w.run_drive(["run", "-in", "scenarios.json", "-reps", "3", "-seed", str(seed), "-out", "trace.ndjson"])
            log(r.stderr.strip())
            rc = trace_validate(w, prop, ["C11", "C06"], "trace.ndjson", ev, label="once-target-redefined")
        if rc == 0 and prop == "C11":
            rc = once_stage(w, tier, seed, ev)
        ev.cov["exhaustive"] = True
        ev.cov["distinct_nontrivial"] = max(ev.cov.get("distinct_nontrivial", 0), ev.cov.get("histories", 0))
        ev.cov["rule"] = ("every history of Call / Convert / Redefine steps up to the bound over the pool of Lifecycle.tla (TLC enumeration), "
                          "each replayed on one set of real shared objects; histories containing Redefine are replayed again without those "
                          "steps (twin) and must produce identical executions and results; distinct_nontrivial = number of histories")
        ev.doc["assumptions"] = ["the pool of Lifecycle.tla has unique derivations, so a history and its twin are comparable step by step"]
        ev.write()
    return rc


def parse_scheds(out):
    import re
    ss = []
    for ln in out.splitlines():
        m = re.match(r'<<"SCHED", "(.*)">>$', ln.strip())
        if m:
            ss.append(json.loads(json.loads('"' + m.group(1) + '"')))
    return ss


def _tla_defs(text, names):
    out = {}
    for n in names:
        m = re.search(r'^%s(\([a-z, ]*\))? ==(.*?)(?=^\S|\Z)' % n, text, re.M | re.S)
        out[n] = " ".join(m.group(2).split()) if m else None
    return out


def tlaps_stage(w, ev, module, label, sync=None):
    """Unbounded argument: the theorems of a proof module are re-checked by tlapm on every run.  `sync` =
    (model module, normaliser, names): the definitions the proof is about must be textually those of the
    module TLC explores and the traces are validated against (a proof about a different protocol is exit 2)."""
    import subprocess
    if sync:
        src, norm, names = sync
        a = _tla_defs(re.sub(r" *\\\*.*", "", norm(open(w.path(src)).read())), names)
        b = _tla_defs(re.sub(r" *\\\*.*", "", open(w.path(module)).read()), names)
        bad = [n for n in names if a[n] is None or a[n] != b[n]]
        if bad:
            raise Infra("%s is out of sync with %s in the definitions %s" % (module, src, bad))
    t0 = time.time()
    r = subprocess.run(["timeout", "900", "tlapm", "--threads", str(vlib.NCPU), "--cleanfp", module], cwd=w.dir, capture_output=True, text=True)
    out = r.stdout + r.stderr
    m = re.search(r"All (\d+) obligations? proved", out)
    ev.cov["runs"].append({"name": label, "kind": "tlaps_proof", "ok": bool(m), "obligations": int(m.group(1)) if m else 0,
                           "wall_s": round(time.time() - t0, 1), "cmd": "tlapm --cleanfp " + module})
    if not m:
        raise Infra("tlapm could not re-check %s:\n%s" % (module, out[-2000:]))
    ev.cov["tlaps_obligations_proved"] = ev.cov.get("tlaps_obligations_proved", 0) + int(m.group(1))


def _sharing_repaired(t):
    """Sharing.tla with Bugs = {} substituted and the comments dropped."""
    t = re.sub(r'IF "F\d+" \\in Bugs THEN ("w"|none) ELSE ("r"|cv\("onceMu"\))', r"\2", t)
    return re.sub(r" *\\\*.*", "", t)


def _once_unrecorded(t):
    """Once.tla with Bugs = {} and the output-only recorder `sched` dropped."""
    t = re.sub(r'/\\ Note\(g, "[a-z]+"\)', "", t)
    t = t.replace("(Locked => lock = 0)", "lock = 0").replace("(IF Locked THEN g ELSE lock)", "g").replace("(IF Locked THEN 0 ELSE lock)", "0")
    return t.replace(" /\\ sched = <<>>", "").replace(", sched>>", ">>")


def once_stage(w, tier, seed, ev):
    """Concurrent first use of a run-once function: all interleavings of the protocol in Once.tla, each
    forced on the real code through the gate hooks; schedules only the unlocked protocol allows must be
    impossible to follow; free-running rounds are validated the other way."""
    import random
    q = tier == "quick"
    rnd = random.Random(seed)
    rc = 0
    # any number of goroutines and uses: AtMostOnce / SameResult / MutualExclusion follow from an inductive invariant (TLAPS)
    tlaps_stage(w, ev, "OnceProof.tla", "once-protocol-unbounded-proof",
                sync=("Once.tla", _once_unrecorded, ["Init", "Enter", "Check", "Exec", "Store", "Next", "AtMostOnce", "SameResult"]))
    for (g, uses, cap) in ([(2, 1, 100), (2, 2, 200), (3, 1, 300)] if q else [(2, 1, 100), (2, 2, 200), (3, 1, 300), (3, 2, 3000), (4, 1, 3000)]):
        consts = {"G": str(g), "Uses": str(uses), "Bugs": "{}"}
        write_cfg(w, "O.cfg", "Spec", ["AtMostOnce", "SameResult", "MutualExclusion", "EmitSched"], constants=consts, post=None, alias=None)
        res = w.tlc("Once.tla", "O.cfg", workers=vlib.NCPU, timeout=1200)
        ev.add_tlc("once-G%d-U%d" % (g, uses), res, "model_checking")
        if not res["ok"]:
            raise Infra("Once model checking failed:\n" + res["out"][-2500:])
        legal = parse_scheds(res["out"])
        legalkeys = {json.dumps(x["steps"]) for x in legal}
        if len(legal) > cap:
            legal = rnd.sample(legal, cap)
        # schedules of the protocol WITHOUT the lock that the locked protocol forbids
        write_cfg(w, "OB.cfg", "Spec", ["EmitSched"], constants=dict(consts, Bugs='{"F9"}'), post=None, alias=None)
        # (only a sample of them is needed: the exploration of the unlocked protocol is cut off after two minutes)
        resb = w.tlc("Once.tla", "OB.cfg", workers=vlib.NCPU, timeout=120, allow_timeout=True)
        adv = [dict(x, adv=True) for x in parse_scheds(resb["out"]) if json.dumps(x["steps"]) not in legalkeys]
        adv = rnd.sample(adv, min(len(adv), 12 if q else 60))
        vlib.write_json(w.path("sched.json"), legal + adv)
        out = "once_%d_%d.ndjson" % (g, uses)
        r = w.run_drive(["once", "-in", "sched.json", "-g", str(g), "-uses", str(uses), "-free", "150" if q else "2000", "-out", out], timeout=3000)
        log(r.stderr.strip())
        ev.cov.setdefault("schedules_forced", 0)
        ev.cov["schedules_forced"] += len(legal)
        ev.cov.setdefault("adversarial_schedules", 0)
        ev.cov["adversarial_schedules"] += len(adv)
        # verdict: what the run itself counted (executions of the body, value every call received) whatever schedule it followed;
        # drift: whether the observed steps are steps of the locked protocol and adversarial schedules were infeasible
        rc = generic_trace_validate(w, "C11", "OnceTrace.tla", ["RunOK"],
                                    consts, out, ev, lambda x: x.startswith('{"ev":"start"'), "once-trace-G%d-U%d" % (g, uses))
        if rc:
            break
        drift_check(w, "C11", "OnceTrace.tla", ["StepsLegal", "ProtocolOK", "AtMostOnce", "SameResult", "MutualExclusion"], consts, out, ev,
                    "once-trace-G%d-U%d" % (g, uses))
    return rc


def run_resolver(prop, tier, seed, keep=False):
    spec = RESOLVER[prop]
    ev = Evidence(prop, tier, seed)
    ti = 0 if tier == "quick" else 1
    rc = 0
    with Work(keep) as w:
        w.build()
        # the sandwich the invariants rest on: MustMatch => MayMatch, monotone fixpoints (exhaustive over the label universe)
        exhaustive(w, prop, "LabelsLemma.tla", "LL.cfg", "Spec", ["Lemma"], {}, ev, "matching-sandwich-lemma", timeout=300)
        # ... and without a bound (any names, types, subtypes, any implements-relation): TLAPS
        tlaps_stage(w, ev, "LabelsProof.tla", "matching-sandwich-unbounded-proof", sync=("Labels.tla", lambda t: t, ["MayMatch", "MustMatch"]))
        allscn = []
        sid0 = 1
        for (profile, nq, nt) in spec["random"]:
            n = (nq, nt)[ti]
            out = "scn_%s.json" % profile
            w.run_drive(["gen", "-profile", profile, "-n", str(n), "-seed", str(seed * 7919 + sid0), "-sid0", str(sid0), "-out", out])
            allscn += json.load(open(w.path(out)))
            sid0 += n
        # ---- model stage: all tie-breaks of (a slice of) the scenarios in the faithful Resolver model
        nmodel = spec.get("model", (400, 4000))[ti]
        mscn = [x for x in allscn if eligible_for_model(x)][:nmodel]
        vlib.write_json(w.path("scn_model.json"), mscn)
        fam = spec.get("family")
        consts = {"ScnFile": '"scn_model.json"', "Bugs": "{}", "Scenarios": "<- AllScenarios",
                  "Family": '"%s"' % (fam or "none"), "Size": spec.get("family_size", "1" if ti == 0 else "2")}
        mres, model, famscn = model_stage(w, prop, "MC_Family.tla", "MC_%s.cfg" % prop,
                                          ["M_" + i for i in spec.get("minv", spec["inv"])], consts, ev)
        allscn += famscn
        ev.cov["exhaustive"] = bool(fam)
        ev.cov["family"] = {"name": fam, "scenarios": len(famscn)}
        vlib.write_json(w.path("scenarios.json"), allscn)
        reps = spec["reps"][ti]
        r = w.run_drive(["run", "-in", "scenarios.json", "-reps", str(reps), "-seed", str(seed), "-out", "trace.ndjson"])
        log(r.stderr.strip())
        summarize_trace(w.path("trace.ndjson"), ev,
                        "seeded random scenarios per profile (%s), each executed %d times on the real library; "
                        "non-trivial = at least one user function body was executed" %
                        (", ".join("%s:%d" % (p, (a, b)[ti]) for p, a, b in spec["random"]), reps))
        rc = trace_validate(w, prop, spec["inv"], "trace.ndjson", ev)
        # ---- conformance of the real observations with the model's outcome sets
        drift = conformance(model, real_observations(w.path("trace.ndjson")), ev)
        if drift and rc == 0:
            # amplification: the drifting scenarios are re-run 20x more often and re-judged
            amp = [x for x in allscn if x["sid"] in set(drift)]
            vlib.write_json(w.path("amp.json"), amp)
            w.run_drive(["run", "-in", "amp.json", "-reps", str(reps * 20), "-seed", str(seed + 1), "-out", "amp.ndjson"])
            ev.cov["conformance"]["amplified_executions"] = len(amp) * reps * 20
            rc = trace_validate(w, prop, spec["inv"], "amp.ndjson", ev, label="amplified")
        if prop == "C08" and rc == 0:
            # the filters Redefine decides with: FilterType / FilterAnd / FilterOr against Filter.tla (every expression of the bounded space)
            rc, fdescs, _ = oracle_stage(w, prop, "filter", tier, seed, ev, enum_inv=["Laws"])
            ev.cov["filter_expressions"] = len(fdescs)
        if spec.get("life") and rc == 0:
            # the same invariants over histories of calls on shared objects (memoized converters, reused functions)
            # (plus C01 and C11: a memoized failure replayed without its error shows as an invented argument / a second execution)
            rc = life_stage(w, prop, spec["inv"] + [i for i in ["C01", "C11"] + spec.get("linv", []) if i not in spec["inv"]], tier, seed, ev)
        if mres["violated"] and rc == 0:
            # a design-level counterexample that the real code did not exhibit: no verdict
            ev.cov["unreproduced_model_cex"] = mres["violated"]
            ev.write()
            raise Infra("the model violates %s but the real code did not reproduce it:\n%s" % (mres["violated"], mres["out"][-2500:]))
        ev.doc["assumptions"] = [
            "the Go harness builds the functions and records argument/result tokens faithfully (harness/scn)",
            "map-iteration orders of the real code are sampled by repetition; all orders are covered only in the model",
        ]
        ev.write()
    return rc


# --------------------------------------------------------------------------- graph layer (C18, C19, C20)


def drift_check(w, prop, module, invariants, constants, trace_file, ev, label):
    """Conformance of the recorded steps with the algorithm / protocol model.  A mismatch means the code no
    longer follows the model (model drift); it is recorded in the evidence and is never a verdict - the
    property itself is judged separately on what the code returned."""
    cfg = write_cfg(w, "D_%s_%s.cfg" % (prop, label), "TSpec" if module == "OnceTrace.tla" else "Spec", invariants,
                    constants=dict(constants, TraceFile='"%s"' % trace_file))
    res = w.tlc(module, cfg, workers=1, timeout=3000)
    ev.add_tlc(label + "-model-conformance", res, "trace_validation")
    ev.cov.setdefault("model_drift", {})
    if res["violated"]:
        line, _ = vlib.last_alias_state(res["out"])
        ev.cov["model_drift"][label] = {"invariant": res["violated"][0], "trace_line": line}
        log("model drift (%s): %s at line %s - not a verdict" % (label, res["violated"][0], line))
    elif not res["ok"]:
        ev.cov["model_drift"][label] = {"invariant": "conformance run did not complete"}


def generic_trace_validate(w, prop, module, invariants, constants, trace_file, ev, is_start, label):
    """Trace validation for the graph-layer specs: one TLC run, first violation reported with the
    execution (graph / history) it belongs to cut out of the ndjson file."""
    lines = open(w.path(trace_file)).read().splitlines()
    cfg = write_cfg(w, "T_%s_%s.cfg" % (prop, label), "TSpec" if module == "OnceTrace.tla" else "Spec", invariants,
                    constants=dict(constants, TraceFile='"%s"' % trace_file))
    res = w.tlc(module, cfg, workers=1, timeout=3000)
    ev.add_tlc(label, res, "trace_validation")
    nstart = sum(1 for x in lines if is_start(x))
    if res["violated"]:
        line, _ = vlib.last_alias_state(res["out"])
        if line is None:
            raise Infra("cannot locate the violating state:\n" + res["out"][-3000:])
        i = max(0, line - 2)
        while i > 0 and not is_start(lines[i]):
            i -= 1
        j = i + 1
        while j < len(lines) and not is_start(lines[j]):
            j += 1
        os.makedirs(vlib.REPLAYS, exist_ok=True)
        rp = os.path.join(vlib.REPLAYS, "%s-%s.json" % (prop, vlib.sha("".join(lines[i:j]))))
        vlib.write_json(rp, {"property": prop, "invariant": res["violated"][0], "spec": module, "constants": constants,
                             "events": [json.loads(x) for x in lines[i:min(j, line)]], "trace_line": line, "seed": ev.doc["seed"]})
        ev.doc["violations"] += 1
        ev.cov["traces_validated_against_impl"] += nstart
        print("VIOLATION property=%s replay=%s" % (prop, rp), flush=True)
        return 1
    if res["ok"] and not res["post_false"]:
        ev.cov["traces_validated_against_impl"] += nstart
        ev.cov["evaluations"] += len(lines)
        return 0
    raise Infra("trace validation did not complete:\n" + res["out"][-3000:])


def exhaustive(w, prop, module, cfgname, spec, invariants, constants, ev, label, props=None, view=None, timeout=2400, extra_cfg=""):
    extra = ("VIEW " + view) if view else ""
    write_cfg(w, cfgname, spec, invariants, constants=constants, post=None, alias=None, props=props, extra=(extra + "\n" + extra_cfg).strip())
    res = w.tlc(module, cfgname, workers=vlib.NCPU, timeout=timeout)
    ev.add_tlc(label, res, "model_checking")
    if res["violated"] or res["prop_violated"]:
        # a design-level counterexample of the algorithm model: not an observation of the real code
        ev.cov["unreproduced_model_cex"] = res["violated"] + res["prop_violated"]
        ev.write()
        raise Infra("%s: the design-level model violates %s:\n%s" % (prop, res["violated"] + res["prop_violated"], res["out"][-2500:]))
    if not res["ok"]:
        raise Infra("%s: model checking did not complete:\n%s" % (prop, res["out"][-3000:]))
    return res


def run_c19(tier, seed, keep=False):
    ev = Evidence("C19", tier, seed)
    q = tier == "quick"
    gconst = {"Keys": '{"a","b","c"}', "Vers": "{1,2}", "Weights": "{1,2,3}", "MaxHandles": "3"}
    with Work(keep) as w:
        w.build()
        # (1) design: every history of bounded length, all invariants and action properties
        exhaustive(w, "C19", "MC_GraphADT.tla", "MC_G.cfg", "MSpec", ["Mirror", "EdgesAmongPresent", "DomAgree", "ReverseTwice"],
                   dict(gconst, Weights="{1,2}", MaxHandles="2" if q else "3", MaxOps="5" if q else "6"), ev, "graphadt-exhaustive",
                   props=["CopyFresh"], view="MView")
        # (1b) unbounded histories: mirror / incident-edge invariant of the single-graph core as an INDUCTIVE invariant (Apalache)
        import subprocess
        for name, args in (("initiation", ["--init=Init", "--inv=IndInv", "--length=0"]), ("consecution", ["--init=IndInit", "--inv=IndInv", "--length=1"])):
            t0 = time.time()
            r = subprocess.run(["timeout", "300", "apalache-mc", "check"] + args + ["--out-dir=" + w.path("apa-" + name), "GraphCore.tla"],
                               cwd=w.dir, capture_output=True, text=True)
            ok = "EXITCODE: OK" in r.stdout
            ev.cov["runs"].append({"name": "apalache-inductive-" + name, "kind": "inductive_invariant", "ok": ok, "wall_s": round(time.time() - t0, 1),
                                   "cmd": "apalache-mc check " + " ".join(args) + " GraphCore.tla"})
            if not ok:
                raise Infra("Apalache could not discharge the %s obligation of GraphCore!IndInv:\n%s" % (name, (r.stdout + r.stderr)[-1500:]))
        ev.cov["inductive_obligations_discharged"] = 2
        # (2) specification -> implementation: behaviours generated by TLC, replayed on real Graph values
        # (TLC evaluates EmitHist on every candidate successor, so each simulated behaviour yields one history per
        #  possible last operation)
        write_cfg(w, "SIM_G.cfg", "MSpec", ["Mirror", "EdgesAmongPresent", "DomAgree", "ReverseTwice", "EmitHist"],
                  constants=dict(gconst, MaxOps="14"), post=None, alias=None)
        sim = w.tlc("MC_GraphADT.tla", "SIM_G.cfg", workers=1, timeout=600,
                    simulate="num=%d" % (40 if q else 500), extra=["-depth", "15", "-seed", str(seed)])
        ev.add_tlc("graphadt-simulation", sim, "simulation")
        import re
        hists = []
        for ln in sim["out"].splitlines():
            m = re.match(r'<<"HIST", "(.*)">>$', ln.strip())
            if m:
                hists.append(json.loads(json.loads('"' + m.group(1) + '"')))
        if not hists:
            raise Infra("TLC generated no histories:\n" + sim["out"][-2000:])
        vlib.write_json(w.path("hist.json"), hists)
        # (3) implementation -> specification: seeded random histories from the harness, longer and with 4 keys
        r = w.run_drive(["graph-hist", "-n", "0", "-in", "hist.json", "-out", "g_tlc.ndjson"])
        log(r.stderr.strip())
        r = w.run_drive(["graph-hist", "-n", str(300 if q else 3000), "-len", "40", "-seed", str(seed), "-out", "g_rand.ndjson"])
        log(r.stderr.strip())
        r = w.run_drive(["graph-hist", "-n", str(100 if q else 1500), "-len", "60", "-keys", "4", "-handles", "4", "-seed", str(seed + 7), "-out", "g_rand4.ndjson"])
        isstart = lambda x: x.startswith('{"op":"reset"')
        # verdict: vertices, successors/predecessors with weights, mirror, applicability - what the property talks about;
        # drift: the row structure of the internal maps, the invariants of the specification state
        inv = ["Conforms", "Applicable", "ApiMirror", "NoPanic", "SearchOK"]
        dinv = ["RowsConform", "Mirror", "EdgesAmongPresent", "DomAgree", "ReverseTwice"]
        g4 = dict(gconst, Keys='{"a","b","c","d"}', MaxHandles="4")
        rc = 0
        for f, c, lab in (("g_tlc.ndjson", gconst, "tlc-generated-histories"), ("g_rand.ndjson", gconst, "random-histories"),
                          ("g_rand4.ndjson", g4, "random-histories-4keys")):
            rc = generic_trace_validate(w, "C19", "GraphTrace.tla", inv, c, f, ev, isstart, lab)
            if rc:
                break
            drift_check(w, "C19", "GraphTrace.tla", dinv, c, f, ev, lab)
        ev.cov["exhaustive"] = True
        ev.cov["distinct_nontrivial"] = len(hists)
        ev.cov["rule"] = ("exhaustive TLC exploration of all operation histories up to the bound; TLC-simulated histories (%d) replayed on real "
                          "Graph values and seeded random histories, every operation followed by a dump of all three maps of every handle; "
                          "distinct_nontrivial = number of TLC-generated histories replayed" % len(hists))
        ev.sample({"history": hists[0][:8]})
        ev.doc["assumptions"] = ["the verif-tagged accessor VerifDump returns the graph's internal maps unmodified",
                                 "AddEdge is issued for absent endpoints too (documented to do nothing); a recovered panic is recorded with the dump of what it left behind"]
        ev.write()
    return rc


def run_c18(tier, seed, keep=False):
    ev = Evidence("C18", tier, seed)
    q = tier == "quick"
    with Work(keep) as w:
        w.build()
        exhaustive(w, "C18", "Dijkstra.tla", "MC_D.cfg", "DSpec", ["C18Model", "PopsAreSettled"],
                   {"N": "3", "WSet": "{0, 1}" if q else "{0, 1, 2}"}, ev, "dijkstra-all-3-vertex-digraphs")
        rc = 0
        jobs = [(3, ["-mode", "all", "-weights", "1", "-reps", "2" if q else "6"], "all-digraphs-3"),
                (3, ["-mode", "random", "-count", "1500" if q else "20000", "-maxw", "2", "-density", "0.5", "-reps", "2"], "random-3"),
                (5, ["-mode", "random", "-count", "1200" if q else "12000", "-reps", "2"], "random-5"),
                (7, ["-mode", "random", "-count", "600" if q else "6000", "-reps", "2", "-density", "0.3"], "random-7"),
                (5, ["-mode", "random", "-count", "600" if q else "6000", "-reps", "1", "-density", "0.4", "-maxw", "30000"], "random-5-large-weights"),
                # weights that are multiples of 2^28 (path sums beyond 32 bits); the trace is written in units of 2^28
                (5, ["-mode", "random", "-count", "500" if q else "5000", "-reps", "1", "-density", "0.4", "-maxw", "7", "-unit", str(2 ** 28)], "random-5-huge-weights")]
        if not q:
            jobs.append((3, ["-mode", "all", "-weights", "0,2", "-reps", "1"], "all-digraphs-3-w02"))
            jobs.append((9, ["-mode", "random", "-count", "2000", "-reps", "2", "-density", "0.25", "-maxw", "6"], "random-9"))
        for n, args, label in jobs:
            out = "d_%s.ndjson" % label
            r = w.run_drive(["dijkstra", "-n", str(n), "-seed", str(seed), "-out", out] + args)
            log(r.stderr.strip())
            # verdict: the declarative statement of C18 on the returned maps and paths; drift: pops / final state vs the model
            rc = rc or generic_trace_validate(w, "C18", "DijkstraTrace.tla", ["C18"],
                                              {"N": str(n), "WSet": "{0}"}, out, ev, lambda x: x.startswith('{"ev":"graph"'), label)
            if rc:
                break
            drift_check(w, "C18", "DijkstraTrace.tla", ["PopsLegal", "ResultIsSpecState"], {"N": str(n), "WSet": "{0}"}, out, ev, label)
        if not rc and not q:
            # the certificate used for the long graphs is equivalent to the declarative statement (all chain graphs on 3 vertices x all candidates)
            exhaustive(w, "C18", "SparseLemma.tla", "SL.cfg", "LSpec", ["Equivalent", "AllWellFormed", "SomeAccepted"],
                       {"N": "3", "WSet": "{1}", "OtherW": "{1}", "TraceFile": '""'}, ev, "sparse-certificate-lemma", timeout=900)
        if not rc:
            # long graphs (> 1000 vertices, shortest paths of > 1000 edges): judged by the certificate of DijkstraSparse.tla
            out = "d_sparse.ndjson"
            r = w.run_drive(["dijkstra", "-mode", "sparse", "-n", "1100", "-count", "6" if q else "60", "-seed", str(seed), "-out", out])
            log(r.stderr.strip())
            cfg = write_cfg(w, "T_C18_driver.cfg", "Spec", ["DriverOK"], constants={"TraceFile": '"%s"' % out})
            res = w.tlc("DijkstraSparse.tla", cfg, workers=1, timeout=1500)
            if not res["ok"]:
                raise Infra("the sparse-graph driver wrote a malformed trace (or TLC failed):\n" + res["out"][-2500:])
            rc = generic_trace_validate(w, "C18", "DijkstraSparse.tla", ["C18"], {}, out, ev, lambda x: x.startswith('{"ev":"sparse"'), "long-sparse-graphs")
        ev.cov["exhaustive"] = True
        ev.cov["distinct_nontrivial"] = ev.cov["traces_validated_against_impl"]
        ev.cov["rule"] = ("model: every digraph on 3 vertices (self-loops included) over the weight set, every source, every tie-break; "
                          "real code: all 512 digraphs on 3 vertices plus seeded random graphs with 3-9 vertices built in random insertion "
                          "orders; one trace = graph, pop sequence (hook), returned maps and EdgeToPath of every vertex; plus long sparse graphs "
                          "(1100-1375 vertices: a chain with heavy or shortcutting skip edges and back edges) judged by the feasibility + "
                          "tight-predecessor certificate of DijkstraSparse.tla")
        if os.path.exists(w.path("d_random-5.ndjson")):
            ev.sample([json.loads(x) for x in open(w.path("d_random-5.ndjson")).read().splitlines()[:7]])
        ev.doc["assumptions"] = ["the verif-tagged pop hook reports each vertex taken off the queue with its distance",
                                 "machine-integer arithmetic is modelled at a reduced scale that preserves the order of all compared values; huge weights are traced in units of their common factor"]
        ev.write()
    return rc


def run_c20(tier, seed, keep=False):
    ev = Evidence("C20", tier, seed)
    q = tier == "quick"
    with Work(keep) as w:
        w.build()
        exhaustive(w, "C20", "Traversal.tla", "MC_T.cfg", "Spec", ["DFSOk", "KahnOk", "SCCOk"],
                   {"N": "3", "defaultInitValue": "0"}, ev, "traversal-all-3-vertex-digraphs")
        rc = 0
        jobs = [(3, ["-mode", "all", "-reps", "2" if q else "8"], "all-digraphs-3"),
                (4, ["-mode", "random", "-count", "1200" if q else "15000", "-reps", "2"], "random-4"),
                (6, ["-mode", "random", "-count", "600" if q else "8000", "-reps", "2", "-density", "0.25"], "random-6"),
                # weights in multiples of 2^29 (path sums beyond 32 bits; the trace is written in units)
                (5, ["-mode", "random", "-count", "400" if q else "4000", "-reps", "1", "-density", "0.4", "-unit", str(2 ** 29)], "random-5-huge-weights")]
        if not q:
            jobs.append((4, ["-mode", "all", "-reps", "1"], "all-digraphs-4"))
            jobs.append((8, ["-mode", "random", "-count", "3000", "-reps", "2", "-density", "0.2"], "random-8"))
        for n, args, label in jobs:
            out = "t_%s.ndjson" % label
            r = w.run_drive(["trav", "-n", str(n), "-seed", str(seed), "-out", out] + args)
            log(r.stderr.strip())
            rc = rc or generic_trace_validate(w, "C20", "TravTrace.tla", ["DFSOk", "KahnOk", "SCCOk", "TopoOk"],
                                              {"N": str(n)}, out, ev, lambda x: x.startswith('{"ev":"trav"'), label)
            if rc:
                break
        ev.cov["exhaustive"] = True
        ev.cov["distinct_nontrivial"] = ev.cov["traces_validated_against_impl"]
        ev.cov["rule"] = ("model: PlusCal versions of DFS / KahnSort / StronglyConnected on all 512 digraphs on 3 vertices x all decline "
                          "sets x all starts x all iteration orders; real code: the same 512 digraphs (every decline set, every start) and "
                          "seeded random graphs (half of them DAGs) with 4-8 vertices; one trace line = all four routines on one graph")
        if os.path.exists(w.path("t_random-4.ndjson")):
            ev.sample(json.loads(open(w.path("t_random-4.ndjson")).readline()))
        ev.doc["assumptions"] = ["the driver's DFS callback declines exactly for the vertices of the chosen set"]
        ev.write()
    return rc


# --------------------------------------------------------------------------- specification as oracle (C14, C15, C17)

ORACLES = {"C14": ("Introspect.tla", "c14", "C14"), "C15": ("ValueSet.tla", "c15", "C15"), "C17": ("ResultAcc.tla", "c17", "C17"),
           "filter": ("Filter.tla", "filter", "FilterOK")}


def oracle_stage(w, prop, key, tier, seed, ev, enum_inv=()):
    """TLC enumerates the whole descriptor space of the module, the harness builds every descriptor with
    reflection and records what the library reports, TLC compares each observation with Expected(desc)."""
    import re
    module, kind, inv = ORACLES[key]
    write_cfg(w, "E_%s.cfg" % key, "EnumSpec", ["Emit"] + list(enum_inv), constants={"TraceFile": '"none"'}, post=None, alias=None)
    res = w.tlc(module, "E_%s.cfg" % key, workers=4, timeout=900)
    ev.add_tlc("descriptor-enumeration-" + key, res, "model_checking")
    descs = []
    for ln in res["out"].splitlines():
        m = re.match(r'<<"DESC", "(.*)">>$', ln.strip())
        if m:
            descs.append(json.loads(json.loads('"' + m.group(1) + '"')))
    if not res["ok"] or not descs:
        raise Infra("descriptor enumeration failed:\n" + res["out"][-2500:])
    vlib.write_json(w.path("descs_%s.json" % key), descs)
    obsf = "obs_%s.ndjson" % key
    r = w.run_drive(["intro", "-kind", kind, "-in", "descs_%s.json" % key, "-out", obsf, "-reps", "2" if tier == "quick" else "5"])
    log(r.stderr.strip())
    cfg = write_cfg(w, "T_%s.cfg" % key, "TraceSpec", [inv], constants={"TraceFile": '"%s"' % obsf})
    tres = w.tlc(module, cfg, workers=1, timeout=1800)
    ev.add_tlc("observations-vs-expected-" + key, tres, "trace_validation")
    lines = open(w.path(obsf)).read().splitlines()
    rc = 0
    if tres["violated"]:
        line, _ = vlib.last_alias_state(tres["out"])
        obs = json.loads(lines[max(0, (line or 2) - 2)])
        os.makedirs(vlib.REPLAYS, exist_ok=True)
        rp = os.path.join(vlib.REPLAYS, "%s-%s.json" % (prop, vlib.sha(json.dumps(obs.get("desc"), sort_keys=True))))
        vlib.write_json(rp, {"property": prop, "invariant": inv, "spec": module, "observation": obs, "seed": seed})
        ev.doc["violations"] += 1
        print("VIOLATION property=%s replay=%s" % (prop, rp), flush=True)
        rc = 1
    elif not tres["ok"] or tres["post_false"]:
        raise Infra("oracle run did not complete:\n" + tres["out"][-2500:])
    ev.cov["traces_validated_against_impl"] += len(lines)
    ev.cov["evaluations"] += len(lines)
    return rc, descs, lines


def run_oracle(prop, tier, seed, keep=False):
    module = ORACLES[prop][0]
    ev = Evidence(prop, tier, seed)
    with Work(keep) as w:
        w.build()
        rc, descs, lines = oracle_stage(w, prop, prop, tier, seed, ev)
        ev.cov["distinct_nontrivial"] = len(descs)
        ev.cov["exhaustive"] = True
        ev.cov["rule"] = ("every descriptor of the bounded space defined in %s (enumerated by TLC), each built by reflection and observed through "
                          "the public API; distinct_nontrivial = number of descriptors" % module)
        ev.sample(descs[len(descs) // 2])
        ev.sample(json.loads(lines[len(lines) // 2]))
        if rc == 0 and prop == "C15":
            rc = built_functions_stage(w, tier, seed, ev)
        ev.doc["assumptions"] = ["reflect.StructOf / FuncOf build the signatures the descriptors describe (unexported fields only through "
                                 "the statically declared structs of the harness)"]
        ev.write()
    return rc


def built_functions_stage(w, tier, seed, ev):
    """C15, second half: functions assembled with NewValueSet + BuildFunc must behave like ordinary functions:
    the contract invariants over scenarios and histories in which every function is a built one."""
    q = tier == "quick"
    n = 2500 if q else 25000
    w.run_drive(["gen", "-profile", "built", "-n", str(n), "-seed", str(seed), "-out", "scenarios.json"])
    # the spec-enumerated families of result-list shapes and of the matching table, every function assembled with BuildFunc
    vlib.write_json(w.path("scn_model.json"), [])
    consts = {"ScnFile": '"scn_model.json"', "Bugs": "{}", "Scenarios": "<- AllScenarios", "Family": '"C15"', "Size": "1" if q else "2"}
    mres, model, famscn = model_stage(w, "C15", "MC_Family.tla", "MC_C15.cfg", ["M_C01", "M_C06"], consts, ev)
    if mres["violated"]:
        raise Infra("the Resolver model violates %s on the C15 family:\n%s" % (mres["violated"], mres["out"][-2500:]))
    for x in famscn:
        for fsp in [x["target"]] + x["convs"]:
            fsp["form"], fsp["hasErr"] = "built", True
    ev.cov["family"] = {"name": "C15", "scenarios": len(famscn)}
    vlib.write_json(w.path("scenarios.json"), json.load(open(w.path("scenarios.json"))) + famscn)
    r = w.run_drive(["run", "-in", "scenarios.json", "-reps", "3", "-seed", str(seed), "-out", "trace.ndjson"])
    log(r.stderr.strip())
    summarize_trace(w.path("trace.ndjson"), ev, ev.cov["rule"])
    rc = trace_validate(w, "C15", ["C01", "C02", "C04", "C06"], "trace.ndjson", ev, label="built-functions")
    if rc == 0:
        os.environ["VERIF_LIFE_FORM"] = "built"
        try:
            rc = life_stage(w, "C15", ["C01", "C04", "C06", "C11"], tier, seed, ev)
        finally:
            del os.environ["VERIF_LIFE_FORM"]
    return rc


# --------------------------------------------------------------------------- C12: sharing between concurrent calls


def parse_races(stderr, repo):
    """Split the race detector's output into reports; a report concerns the library if one of the two
    conflicting accesses happens in library code (first frame outside the Go runtime / reflect)."""
    import re
    reports = stderr.split("WARNING: DATA RACE")[1:]
    lib, harness = [], []
    for rep in reports:
        sites = []
        for sec in re.split(r"\n(?=(?:Previous )?(?:[Ww]rite|[Rr]ead) at )", "\n" + rep):
            if not re.match(r"(?:Previous )?(?:[Ww]rite|[Rr]ead) at ", sec.strip()):
                continue
            site = None
            for m in re.finditer(r"\n\s+(/\S+\.go):(\d+)", sec):
                if not m.group(1).startswith("/usr/lib/go") and "/opt/veriftools/go" not in m.group(1):
                    site = m.group(1) + ":" + m.group(2)
                    break
            sites.append(site)
        text = "WARNING: DATA RACE" + rep.split("==================")[0]
        if any(s and s.startswith(repo.rstrip("/") + "/") for s in sites):
            lib.append({"sites": sites, "report": text[:6000]})
        else:
            harness.append({"sites": sites, "report": text[:3000]})
    return lib, harness


def run_c12(tier, seed, keep=False):
    ev = Evidence("C12", tier, seed)
    q = tier == "quick"
    import subprocess
    with Work(keep) as w:
        w.build()
        # (1) design: the access protocol of concurrent calls, all interleavings, every sharing configuration
        for so in ("TRUE", "FALSE"):
            for sc in ("TRUE", "FALSE"):
                exhaustive(w, "C12", "Sharing.tla", "S.cfg", "Spec", ["NoConflict", "PosOK"],
                           {"G": "3" if q else "4", "Bugs": "{}", "ShareOpts": so, "ShareConvs": sc}, ev, "sharing-opts%s-convs%s" % (so, sc))
        # (1b) any number of goroutines: no two accesses of different goroutines' programs conflict (TLAPS)
        tlaps_stage(w, ev, "SharingProof.tla", "sharing-unbounded-proof",
                    sync=("Sharing.tla", _sharing_repaired, ["Acc", "Program", "NoLock", "Conflict", "Locks", "Init", "Cur", "Active", "Step", "Next", "Spec", "NoConflict", "PosOK"]))
        # (2) the real code under the race detector, same sharing configurations
        race = w.build(race=True)
        n = 400 if q else 4000
        w.run_drive(["gen", "-profile", "conc", "-n", str(n), "-seed", str(seed), "-out", "scenarios.json"])
        rc = 0
        for g in ((4,) if q else (2, 4, 8)):
            out = "conc_%d.ndjson" % g
            r = subprocess.run([race, "conc", "-in", "scenarios.json", "-g", str(g), "-rounds", "2" if q else "3", "-seed", str(seed), "-out", out],
                               cwd=w.dir, capture_output=True, text=True, timeout=3000,
                               env=dict(os.environ, GORACE="halt_on_error=0 history_size=3"))
            log([l for l in r.stderr.splitlines() if l.startswith("drive conc")][-1:] or r.stderr[-300:])
            lib, harness = parse_races(r.stderr, vlib.REPO)
            ev.cov.setdefault("race_reports_library", 0)
            ev.cov["race_reports_library"] += len(lib)
            if r.returncode not in (0, 66):
                raise Infra("race-enabled driver failed (%d):\n%s" % (r.returncode, r.stderr[-2000:]))
            if harness and not lib:
                raise Infra("the race detector reports a race inside the harness itself:\n" + harness[0]["report"])
            if lib:
                os.makedirs(vlib.REPLAYS, exist_ok=True)
                rp = os.path.join(vlib.REPLAYS, "C12-%s.json" % vlib.sha(json.dumps(lib[0]["sites"])))
                vlib.write_json(rp, {"property": "C12", "kind": "data race reported by the Go race detector", "goroutines": g,
                                     "sites": lib[0]["sites"], "report": lib[0]["report"], "seed": seed,
                                     "how": "drive (built with -race) conc -in scenarios.json -g %d" % g})
                ev.doc["violations"] += 1
                print("VIOLATION property=C12 replay=%s" % rp, flush=True)
                rc = 1
                break
            # (3) outcome half: every goroutine's call, judged as one phase of a combined log
            summarize_trace(w.path(out), ev, "")
            rc = trace_validate(w, "C12", ["C01", "C02", "C04", "C06", "C11"], out, ev, label="concurrent-outcomes-g%d" % g)
            if rc:
                break
        ev.cov["exhaustive"] = False
        ev.cov["rule"] = ("design: all interleavings of the access sequences of G calls for every sharing configuration (Sharing.tla); real code: "
                          "seeded random scenarios (ordinary functions only, run-once converters frequent) executed by G goroutines at once on shared "
                          "converters and shared / private target and option values, under the Go race detector; every goroutine's executions and "
                          "result form one phase of a combined log judged by the contract invariants")
        ev.doc["assumptions"] = ["the Go race detector is the sensor for memory accesses of the real code (TLA+ cannot observe them)",
                                 "functions assembled with BuildFunc are excluded, as the property says"]
        ev.write()
    return rc


# --------------------------------------------------------------------------- replay


def replay(path):
    doc = json.load(open(path))
    prop = doc["property"]
    if "observation" in doc:
        # an oracle check (C14, C15, C17, filters): the descriptor is built and observed again, TLC compares with Expected
        key = next(k for k, v in ORACLES.items() if v[0] == doc["spec"])
        module, kind, inv = ORACLES[key]
        ev = Evidence(prop, "quick", int(doc.get("seed", 1)))
        with Work() as w:
            w.build()
            vlib.write_json(w.path("descs.json"), [doc["observation"]["desc"]])
            w.run_drive(["intro", "-kind", kind, "-in", "descs.json", "-out", "obs.ndjson", "-reps", "3"])
            cfg = write_cfg(w, "R.cfg", "TraceSpec", [inv], constants={"TraceFile": '"obs.ndjson"'})
            res = w.tlc(module, cfg, workers=1, timeout=600)
        if res["violated"]:
            print("VIOLATION property=%s replay=%s" % (prop, path), flush=True)
            return 1
        if not res["ok"]:
            raise Infra("replay did not complete:\n" + res["out"][-2000:])
        print("replay: property %s holds on the descriptor (3 observations)" % prop)
        return 0
    if "events" in doc and "scenario" not in doc:
        # a graph-layer / run-once check: a history of Graph operations (C19) is applied to real graphs again; for the
        # other kinds the recorded execution is judged again (re-run the check with the recorded seed to re-execute)
        module, inv, consts = doc["spec"], doc["invariant"], doc.get("constants", {})
        ev = Evidence(prop, "quick", int(doc.get("seed", 1)))
        with Work() as w:
            w.build()
            if module == "GraphTrace.tla":
                ops = [{k: e[k] for k in ("op", "h", "k", "ver", "a", "b", "w")} for e in doc["events"] if e.get("op") != "reset"]
                vlib.write_json(w.path("hist.json"), [ops])
                nk = consts.get("Keys", "").count(",") + 1
                w.run_drive(["graph-hist", "-n", "0", "-in", "hist.json", "-out", "t.ndjson", "-keys", str(max(nk, 3)), "-handles", str(consts.get("MaxHandles", "3"))])
                how = "re-executed on real Graph values"
            else:
                open(w.path("t.ndjson"), "w").write("\n".join(json.dumps(e) for e in doc["events"]) + "\n")
                how = "recorded execution judged again (not re-executed)"
            cfg = write_cfg(w, "R.cfg", "TSpec" if module == "OnceTrace.tla" else "Spec", [inv], constants=dict(consts, TraceFile='"t.ndjson"'), post=None)
            res = w.tlc(module, cfg, workers=1, timeout=600)
        if res["violated"]:
            print("VIOLATION property=%s replay=%s (%s)" % (prop, path, how), flush=True)
            return 1
        if not res["ok"]:
            raise Infra("replay did not complete:\n" + res["out"][-2000:])
        print("replay: %s holds (%s)" % (inv, how))
        return 0
    scn = doc["scenario"]
    ev = Evidence(prop, "quick", int(doc.get("seed", 1)))
    with Work() as w:
        w.build()
        vlib.write_json(w.path("scenarios.json"), [scn])
        w.run_drive(["run", "-in", "scenarios.json", "-reps", "25", "-seed", str(doc.get("seed", 1)), "-out", "trace.ndjson"])
        inv = RESOLVER.get(prop, {}).get("inv", [doc.get("invariant", prop)])
        rc = trace_validate(w, prop, inv, "trace.ndjson", ev)
    if rc == 0:
        print("replay: property %s holds on 25 executions of the scenario" % prop)
    return rc


# --------------------------------------------------------------------------- selftest: the binding is live


def selftest(seed=1):
    """Corrupt one recorded field at a time and require the corresponding trace specification to reject
    the trace; check a deliberately wrong invariant fails (non-vacuity).  Prints one line per probe."""
    import random
    rnd = random.Random(seed)
    results = []

    def probe(name, w, module, spec, inv, consts, path, mutate, expect_violation=True):
        lines = open(w.path(path)).read().splitlines()
        lines = mutate(lines)
        open(w.path("st_" + path), "w").write("\n".join(lines) + "\n")
        cfg = write_cfg(w, "ST.cfg", spec, inv, constants=dict(consts, TraceFile='"st_%s"' % path))
        res = w.tlc(module, cfg, workers=1, timeout=900)
        got = bool(res["violated"]) or res["post_false"]
        ok = got == expect_violation
        results.append(ok)
        print("selftest %-46s %s (%s)" % (name, "ok" if ok else "FAILED", "rejected" if got else "accepted"), flush=True)

    def edit_first(lines, pred, fn):
        out, done = [], False
        for x in lines:
            if not done and pred(x):
                e = json.loads(x)
                fn(e)
                x = json.dumps(e, separators=(",", ":"))
                done = True
            out.append(x)
        if not done:
            raise Infra("selftest: nothing to corrupt")
        return out

    with Work() as w:
        w.build()
        w.run_drive(["gen", "-profile", "general", "-n", "400", "-seed", str(seed), "-out", "s.json"])
        w.run_drive(["run", "-in", "s.json", "-reps", "2", "-seed", str(seed), "-out", "t.ndjson"])
        ct = ("ContractTrace.tla", "Spec")
        isexec = lambda x: x.startswith('{"ev":"exec"') and '"args":[]' not in x
        probe("contract: unchanged trace accepted", w, ct[0], ct[1], ["C01", "C04", "C06"], {}, "t.ndjson", lambda l: l, False)
        probe("contract: argument token swapped -> C01", w, ct[0], ct[1], ["C01"], {}, "t.ndjson",
              lambda l: edit_first(l, isexec, lambda e: e.__setitem__("args", [999] + e["args"][1:])))
        probe("contract: result kind changed to panic -> C06", w, ct[0], ct[1], ["C06"], {}, "t.ndjson",
              lambda l: edit_first(l, lambda x: x.startswith('{"ev":"ret"'), lambda e: e.__setitem__("kind", "panic")))
        probe("contract: failing flag set on an execution -> C04", w, ct[0], ct[1], ["C04"], {}, "t.ndjson",
              lambda l: edit_first(l, isexec, lambda e: (e.__setitem__("fails", True), e.__setitem__("errid", 77))))
        probe("contract: wrong invariant NeverOk is refuted", w, ct[0], ct[1], ["NeverOk"], {}, "t.ndjson", lambda l: l)
        probe("contract: an unknown event stops the trace (Accepted)", w, ct[0], ct[1], ["C06"], {}, "t.ndjson",
              lambda l: l[:len(l) // 2] + ['{"ev":"bogus"}'] + l[len(l) // 2:])
        # graph layer
        gconst = {"Keys": '{"a","b","c"}', "Vers": "{1,2}", "Weights": "{1,2,3}", "MaxHandles": "3"}
        w.run_drive(["graph-hist", "-n", "40", "-len", "30", "-seed", str(seed), "-out", "g.ndjson"])
        def bump_weight(e):
            for o in e["obs"]:
                if o["oedges"]:
                    o["oedges"][0][2] += 1
                    return
        probe("graph: unchanged history accepted", w, "GraphTrace.tla", "Spec", ["Conforms", "ApiMirror"], gconst, "g.ndjson", lambda l: l, False)
        probe("graph: one weight changed in a dump -> Conforms", w, "GraphTrace.tla", "Spec", ["Conforms"], gconst, "g.ndjson",
              lambda l: edit_first(l, lambda x: '"oedges":[[' in x, bump_weight))
        w.run_drive(["dijkstra", "-n", "5", "-mode", "random", "-count", "60", "-seed", str(seed), "-out", "d.ndjson"])
        dconst = {"N": "5", "WSet": "{0}"}
        def swap_pops(lines):
            for i in range(len(lines) - 1):
                if lines[i].startswith('{"ev":"pop"') and lines[i + 1].startswith('{"ev":"pop"'):
                    a, b = json.loads(lines[i]), json.loads(lines[i + 1])
                    if a["d"] != b["d"]:
                        lines[i], lines[i + 1] = lines[i + 1], lines[i]
                        return lines
            raise Infra("selftest: no pops to swap")
        probe("dijkstra: unchanged runs accepted", w, "DijkstraTrace.tla", "Spec", ["PopsLegal", "ResultIsSpecState", "C18"], dconst, "d.ndjson", lambda l: l, False)
        probe("dijkstra: two pops swapped -> PopsLegal", w, "DijkstraTrace.tla", "Spec", ["PopsLegal"], dconst, "d.ndjson", swap_pops)
        probe("dijkstra: a distance changed -> C18", w, "DijkstraTrace.tla", "Spec", ["C18", "ResultIsSpecState"], dconst, "d.ndjson",
              lambda l: edit_first(l, lambda x: x.startswith('{"ev":"result"'), lambda e: e["dist"].__setitem__(e["prev"].index(max(e["prev"])), 12345)))
        # long sparse graphs: the certificate rejects a distance that is one too large / too small and a predecessor without an edge
        w.run_drive(["dijkstra", "-mode", "sparse", "-n", "1100", "-count", "2", "-seed", str(seed), "-out", "ds.ndjson"])
        issp = lambda x: x.startswith('{"ev":"sparse"')
        probe("sparse: unchanged runs accepted", w, "DijkstraSparse.tla", "Spec", ["DriverOK", "C18"], {}, "ds.ndjson", lambda l: l, False)
        probe("sparse: far distance + 1 -> C18", w, "DijkstraSparse.tla", "Spec", ["C18"], {}, "ds.ndjson",
              lambda l: edit_first(l, issp, lambda e: e["dist"].__setitem__(e["n"] - 1, e["dist"][e["n"] - 1] + 1)))
        probe("sparse: a middle distance - 1 -> C18", w, "DijkstraSparse.tla", "Spec", ["C18"], {}, "ds.ndjson",
              lambda l: edit_first(l, issp, lambda e: e["dist"].__setitem__(500, e["dist"][500] - 1)))
        probe("sparse: predecessor without an edge -> C18", w, "DijkstraSparse.tla", "Spec", ["C18"], {}, "ds.ndjson",
              lambda l: edit_first(l, issp, lambda e: e["prev"].__setitem__(700, 3)))
        probe("sparse: chain edge missing -> DriverOK", w, "DijkstraSparse.tla", "Spec", ["DriverOK"], {}, "ds.ndjson",
              lambda l: edit_first(l, issp, lambda e: e.__setitem__("edges", [x for x in e["edges"] if not (x[0] == 10 and x[1] == 11)])))
        # once protocol
        consts = {"G": "2", "Uses": "1", "Bugs": "{}"}
        write_cfg(w, "O.cfg", "Spec", ["EmitSched"], constants=consts, post=None, alias=None)
        res = w.tlc("Once.tla", "O.cfg", workers=2, timeout=300)
        vlib.write_json(w.path("sched.json"), parse_scheds(res["out"]))
        w.run_drive(["once", "-in", "sched.json", "-g", "2", "-uses", "1", "-free", "5", "-out", "o.ndjson"])
        def dup_exec(lines):
            for i, x in enumerate(lines):
                if '"e":"exec"' in x:
                    return lines[:i + 1] + [x] + lines[i + 1:]
            raise Infra("selftest: no exec step")
        probe("once: unchanged schedules accepted", w, "OnceTrace.tla", "TSpec", ["StepsLegal", "RunOK"], consts, "o.ndjson", lambda l: l, False)
        probe("once: an exec step duplicated -> StepsLegal", w, "OnceTrace.tla", "TSpec", ["StepsLegal"], consts, "o.ndjson", dup_exec)
    ok = all(results)
    print("selftest: %d/%d probes behaved as required" % (sum(results), len(results)))
    return 0 if ok else 2


# --------------------------------------------------------------------------- main


def main():
    ap = argparse.ArgumentParser()
    ap.add_argument("prop", nargs="?")
    ap.add_argument("--tier", default=os.environ.get("VERIF_TIER", "quick"))
    ap.add_argument("--seed", type=int, default=int(os.environ.get("VERIF_SEED", "1")))
    ap.add_argument("--replay")
    ap.add_argument("--keep", action="store_true")
    a = ap.parse_args()
    if a.tier not in ("quick", "thorough"):
        a.tier = "quick"
    try:
        if a.replay:
            return replay(a.replay)
        if a.prop == "selftest":
            return selftest(a.seed)
        if a.prop in RESOLVER:
            return run_resolver(a.prop, a.tier, a.seed, a.keep)
        if a.prop in EXTRA:
            return EXTRA[a.prop](a.tier, a.seed, a.keep)
        print("unknown property", a.prop, file=sys.stderr)
        return 2
    except Infra as e:
        log("INFRASTRUCTURE PROBLEM (no verdict):", e)
        return 2
    except Exception as e:  # noqa
        import traceback
        traceback.print_exc()
        return 2


EXTRA = {"C18": run_c18, "C19": run_c19, "C20": run_c20,
         "C09": lambda t, s, k: run_life("C09", t, s, k), "C11": lambda t, s, k: run_life("C11", t, s, k),
         "C14": lambda t, s, k: run_oracle("C14", t, s, k), "C15": lambda t, s, k: run_oracle("C15", t, s, k),
         "C17": lambda t, s, k: run_oracle("C17", t, s, k), "C12": run_c12}

if __name__ == "__main__":
    sys.exit(main())
