#!/usr/bin/env python3
"""Prints the markdown table of DESIGN.md section 7.1 from seeded/*/meta.json."""
import glob
import json
import os

rows = []
for p in sorted(glob.glob(os.path.join(os.path.dirname(os.path.dirname(os.path.abspath(__file__))), "seeded", "*", "meta.json"))):
    m = json.load(open(p))
    notes = m.get("needs_to_manifest", "").replace("\n", " ")
    first = notes.split(". ")[0][:150] if notes else ""
    rows.append((m["id"], m["breaks_property"], ", ".join(m.get("detected_by", [])) or "-", first))
print("### 7.1 Seeded changes and the checks that catch them\n")
print("| id | breaks | caught by (quick tier) | what the change is |")
print("|---|---|---|---|")
for r in rows:
    print("| %s | %s | %s | %s |" % r)
print("\n%d seeded changes, %d caught by the check of the property they break." % (len(rows), sum(1 for r in rows if r[1] in r[2])))
