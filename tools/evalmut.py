#!/usr/bin/env python3
"""evalmut.py <mutant-dir> <property>[,<property>...] [--seeds 1,2] [--tier quick]

Confirms a seeded change (patch.diff + demo_test.go) in a scratch worktree, then applies it to /repo,
runs the listed checks and restores /repo.  Prints one JSON line with the result.
"""
import json
import os
import re
import shutil
import subprocess
import sys
import tempfile

ENV = dict(os.environ, GOFLAGS="-mod=mod", GOPROXY="off", GOSUMDB="off", GOTOOLCHAIN="local")


def sh(cmd, cwd=None, timeout=1800):
    r = subprocess.run(cmd, shell=True, cwd=cwd, env=ENV, capture_output=True, text=True, timeout=timeout)
    return r.returncode, r.stdout + r.stderr


def demo_dir(mdir):
    src = open(os.path.join(mdir, "demo_test.go")).read()
    m = re.search(r"^package (\w+)", src, re.M)
    return "internal/graph" if m and m.group(1) == "graph" else "."


def confirm(mdir):
    wt = tempfile.mkdtemp(prefix="mev-")
    os.rmdir(wt)
    res = {}
    try:
        rc, out = sh("git -C /repo worktree add -q --detach %s HEAD" % wt)
        if rc:
            return {"error": "worktree: " + out}
        patch = os.path.abspath(os.path.join(mdir, "patch.diff"))
        rc, out = sh("git apply %s" % patch, cwd=wt)
        if rc:  # the tree moved on since the change was written: fall back to a three-way merge
            rc, out = sh("git apply --3way %s && git reset -q" % patch, cwd=wt)
            res["applied_3way"] = rc == 0
            if rc == 0:
                # keep a patch that applies to the current tree
                rc2, diff = sh("git diff", cwd=wt)
                patch = os.path.join(tempfile.mkdtemp(prefix="mevp-"), "patch.diff")
                open(patch, "w").write(diff)
                res["rebased_patch"] = patch
        res["applies"] = rc == 0
        if rc:
            res["apply_err"] = out[-400:]
            return res
        rc, out = sh("go build ./... && go test -vet=off -count=1 ./...", cwd=wt)
        res["suite_passes_with_change"] = rc == 0
        dd = demo_dir(mdir)
        shutil.copy(os.path.join(mdir, "demo_test.go"), os.path.join(wt, dd, "zz_demo_test.go"))
        race = "-race " if "go:build race" in open(os.path.join(mdir, "demo_test.go")).read() else ""
        rc, out = sh("go test %s-vet=off -count=1 -run 'TestMutantDemo' ./%s" % (race, dd), cwd=wt)
        res["demo_fails_with_change"] = rc != 0
        sh("git apply -R %s" % patch, cwd=wt)
        rc, out = sh("go test %s-vet=off -count=1 -run 'TestMutantDemo' ./%s" % (race, dd), cwd=wt)
        res["demo_passes_without_change"] = rc == 0
        if rc:
            res["demo_head_out"] = out[-600:]
    finally:
        sh("git -C /repo worktree remove --force %s" % wt)
        shutil.rmtree(wt, ignore_errors=True)
    return res


def main():
    mdir = sys.argv[1]
    props = sys.argv[2].split(",")
    seeds = [1]
    tier = "quick"
    for i, a in enumerate(sys.argv):
        if a == "--seeds":
            seeds = [int(x) for x in sys.argv[i + 1].split(",")]
        if a == "--tier":
            tier = sys.argv[i + 1]
    out = {"mutant": mdir, "confirm": confirm(mdir), "checks": {}}
    c = out["confirm"]
    ok = c.get("applies") and c.get("suite_passes_with_change") and c.get("demo_fails_with_change") and c.get("demo_passes_without_change")
    out["confirmed"] = bool(ok)
    if ok and props != [""] and "--worktree" in sys.argv:
        # development mode: run the checks against a patched scratch worktree (VERIF_REPO) so that
        # several evaluations can run in parallel and /repo stays untouched
        wt = tempfile.mkdtemp(prefix="mevr-")
        os.rmdir(wt)
        try:
            sh("git -C /repo worktree add -q --detach %s HEAD" % wt)
            sh("git apply %s" % (c.get("rebased_patch") or os.path.abspath(os.path.join(mdir, "patch.diff"))), cwd=wt)
            for p in props:
                for s in seeds:
                    rc, o = sh("cd /verif && VERIF_REPO=%s VERIF_OUT_DIR=%s ./check.py %s --tier %s --seed %d" % (wt, wt + "-out", p, tier, s), timeout=3600)
                    v = [l for l in o.splitlines() if l.startswith("VIOLATION")]
                    out["checks"]["%s/seed%d" % (p, s)] = {"rc": rc, "violation": v[:1], "tail": o[-300:] if rc not in (0, 1) else "", "mode": "worktree"}
        finally:
            sh("git -C /repo worktree remove --force %s" % wt)
            shutil.rmtree(wt, ignore_errors=True)
            shutil.rmtree(wt + "-out", ignore_errors=True)
    elif ok and props != [""]:
        rc, st = sh("git -C /repo status --porcelain")
        if st.strip():
            print(json.dumps({"error": "/repo not clean: " + st}))
            return 2
        patch = os.path.abspath(os.path.join(mdir, "patch.diff"))
        try:
            rc, o = sh("git -C /repo apply %s" % patch)
            if rc:
                out["error"] = "apply to /repo failed: " + o
            else:
                for p in props:
                    for s in seeds:
                        rc, o = sh("cd /verif && ./check.py %s --tier %s --seed %d" % (p, tier, s), timeout=3600)
                        v = [l for l in o.splitlines() if l.startswith("VIOLATION")]
                        out["checks"]["%s/seed%d" % (p, s)] = {"rc": rc, "violation": v[:1], "tail": o[-300:] if rc not in (0, 1) else ""}
        finally:
            sh("git -C /repo checkout -- . && git -C /repo clean -fdq")
    out["detected_by"] = sorted({k.split("/")[0] for k, v in out["checks"].items() if v["rc"] == 1})
    if "--keep" in sys.argv and out["confirmed"]:
        kid = sys.argv[sys.argv.index("--keep") + 1]
        dst = os.path.join("/verif/seeded", kid)
        os.makedirs(dst, exist_ok=True)
        same = os.path.abspath(mdir) == os.path.abspath(dst)
        if not same:
            shutil.copy(os.path.join(mdir, "demo_test.go"), dst)
        if c.get("rebased_patch") or not same:
            shutil.copy(c.get("rebased_patch") or os.path.join(mdir, "patch.diff"), os.path.join(dst, "patch.diff"))
        notes = open(os.path.join(mdir, "notes.md")).read() if os.path.exists(os.path.join(mdir, "notes.md")) else ""
        head = subprocess.check_output(["git", "-C", "/repo", "log", "--format=%h", "-1"], text=True).strip()
        meta = {"id": kid, "breaks_property": props[0], "needs_to_manifest": notes.strip(),
                "demo": "copy demo_test.go to %s of the repository and run: go test -vet=off -count=1 -run TestMutantDemo ./%s" % (demo_dir(mdir), demo_dir(mdir)),
                "confirmed_on_repo_head": head, "confirmation": c,
                "what_was_run": {k: {"exit": v["rc"], "violation": v["violation"]} for k, v in out["checks"].items()},
                "detected_by": out["detected_by"], "source": "independent sub-agent given only the property text and a scratch worktree"}
        with open(os.path.join(dst, "meta.json"), "w") as f:
            json.dump(meta, f, indent=1)
    print(json.dumps(out))
    return 0


if __name__ == "__main__":
    sys.exit(main())
