#!/usr/bin/env python3
"""evalmut.py <mutant-dir> <property>[,<property>...] [--seeds 1,2] [--tier quick]

Confirms a seeded change (patch.diff + demo_test.go) in a scratch worktree, then applies it to /repo,
runs the listed checks and restores /repo.  Prints one JSON line with the result.
"""
import json
import os
import re
import shutil
import subprocess
import sys
import tempfile

ENV = dict(os.environ, GOFLAGS="-mod=mod", GOPROXY="off", GOSUMDB="off", GOTOOLCHAIN="local")


def sh(cmd, cwd=None, timeout=1800):
    r = subprocess.run(cmd, shell=True, cwd=cwd, env=ENV, capture_output=True, text=True, timeout=timeout)
    return r.returncode, r.stdout + r.stderr


def demo_dir(mdir):
    src = open(os.path.join(mdir, "demo_test.go")).read()
    m = re.search(r"^package (\w+)", src, re.M)
    return "internal/graph" if m and m.group(1) == "graph" else "."


def confirm(mdir):
    wt = tempfile.mkdtemp(prefix="mev-")
    os.rmdir(wt)
    res = {}
    try:
        rc, out = sh("git -C /repo worktree add -q --detach %s HEAD" % wt)
        if rc:
            return {"error": "worktree: " + out}
        patch = os.path.abspath(os.path.join(mdir, "patch.diff"))
        rc, out = sh("git apply %s" % patch, cwd=wt)
        res["applies"] = rc == 0
        if rc:
            res["apply_err"] = out[-400:]
            return res
        rc, out = sh("go build ./... && go test -vet=off -count=1 ./...", cwd=wt)
        res["suite_passes_with_change"] = rc == 0
        dd = demo_dir(mdir)
        shutil.copy(os.path.join(mdir, "demo_test.go"), os.path.join(wt, dd, "zz_demo_test.go"))
        rc, out = sh("go test -vet=off -count=1 -run 'TestMutantDemo' ./%s" % dd, cwd=wt)
        res["demo_fails_with_change"] = rc != 0
        sh("git apply -R %s" % patch, cwd=wt)
        rc, out = sh("go test -vet=off -count=1 -run 'TestMutantDemo' ./%s" % dd, cwd=wt)
        res["demo_passes_without_change"] = rc == 0
        if rc:
            res["demo_head_out"] = out[-600:]
    finally:
        sh("git -C /repo worktree remove --force %s" % wt)
        shutil.rmtree(wt, ignore_errors=True)
    return res


def main():
    mdir = sys.argv[1]
    props = sys.argv[2].split(",")
    seeds = [1]
    tier = "quick"
    for i, a in enumerate(sys.argv):
        if a == "--seeds":
            seeds = [int(x) for x in sys.argv[i + 1].split(",")]
        if a == "--tier":
            tier = sys.argv[i + 1]
    out = {"mutant": mdir, "confirm": confirm(mdir), "checks": {}}
    c = out["confirm"]
    ok = c.get("applies") and c.get("suite_passes_with_change") and c.get("demo_fails_with_change") and c.get("demo_passes_without_change")
    out["confirmed"] = bool(ok)
    if ok and props != [""]:
        rc, st = sh("git -C /repo status --porcelain")
        if st.strip():
            print(json.dumps({"error": "/repo not clean: " + st}))
            return 2
        patch = os.path.abspath(os.path.join(mdir, "patch.diff"))
        try:
            rc, o = sh("git -C /repo apply %s" % patch)
            if rc:
                out["error"] = "apply to /repo failed: " + o
            else:
                for p in props:
                    for s in seeds:
                        rc, o = sh("cd /verif && ./check.py %s --tier %s --seed %d" % (p, tier, s), timeout=3600)
                        v = [l for l in o.splitlines() if l.startswith("VIOLATION")]
                        out["checks"]["%s/seed%d" % (p, s)] = {"rc": rc, "violation": v[:1], "tail": o[-300:] if rc not in (0, 1) else ""}
        finally:
            sh("git -C /repo checkout -- . && git -C /repo clean -fdq")
    out["detected_by"] = sorted({k.split("/")[0] for k, v in out["checks"].items() if v["rc"] == 1})
    print(json.dumps(out))
    return 0


if __name__ == "__main__":
    sys.exit(main())
