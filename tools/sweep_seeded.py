#!/usr/bin/env python3
"""sweep_seeded.py [--jobs N] [--literal id,id,...] [id ...]

Re-confirms every kept seeded change (seeded/<id>/) against the CURRENT /repo head and runs the checks of
its property (plus every check that caught it before) against it; rewrites seeded/<id>/meta.json.

Default mode: each change is applied to a scratch worktree of /repo and the checks are pointed at it
(VERIF_REPO) - several at a time, /repo itself is never touched.
--literal: for the listed ids (or "one-per-property") the patch is applied to /repo itself
(git -C /repo apply), the checks run as registered in MANIFEST.json, /repo is restored - one at a time.
A change that no longer applies (the code it touched was rewritten by a later repair) is marked superseded.
"""
import json
import os
import subprocess
import sys
from concurrent.futures import ThreadPoolExecutor

VERIF = os.path.dirname(os.path.dirname(os.path.abspath(__file__)))
SEEDED = os.path.join(VERIF, "seeded")


def props_of(mid, meta):
    p = meta.get("breaks_property") or mid.split("-")[0]
    extra = [x for x in meta.get("detected_by", []) if x != p]
    return [p] + extra


def run_one(mid, literal=False):
    d = os.path.join(SEEDED, mid)
    meta = json.load(open(os.path.join(d, "meta.json")))
    props = props_of(mid, meta)
    cmd = ["python3", os.path.join(VERIF, "tools", "evalmut.py"), d, ",".join(props), "--keep", mid]
    if not literal:
        cmd.append("--worktree")
    r = subprocess.run(cmd, capture_output=True, text=True, cwd=VERIF)
    try:
        out = json.loads(r.stdout.strip().splitlines()[-1])
    except Exception:
        return mid, {"error": (r.stdout + r.stderr)[-400:]}
    if not out.get("confirmed"):
        # keep the old meta, note why the change no longer stands
        meta["superseded"] = out.get("confirm")
        json.dump(meta, open(os.path.join(d, "meta.json"), "w"), indent=1)
    else:
        m2 = json.load(open(os.path.join(d, "meta.json")))
        m2["breaks_property"] = props[0]
        m2["needs_to_manifest"] = meta.get("needs_to_manifest", m2.get("needs_to_manifest", ""))
        m2["mode"] = "literal (/repo patched and restored)" if literal else "scratch worktree (VERIF_REPO)"
        json.dump(m2, open(os.path.join(d, "meta.json"), "w"), indent=1)
    return mid, {"confirmed": out.get("confirmed"), "detected_by": out.get("detected_by"), "confirm": None if out.get("confirmed") else out.get("confirm")}


def main():
    args = sys.argv[1:]
    jobs, literal = 5, None
    ids = []
    i = 0
    while i < len(args):
        if args[i] == "--jobs":
            jobs = int(args[i + 1]); i += 2
        elif args[i] == "--literal":
            literal = args[i + 1]; i += 2
        else:
            ids.append(args[i]); i += 1
    allids = sorted(x for x in os.listdir(SEEDED) if os.path.isdir(os.path.join(SEEDED, x)))
    if literal:
        if literal == "one-per-property":
            seen, pick = set(), []
            for m in allids:
                p = m.split("-")[0]
                if p not in seen:
                    seen.add(p); pick.append(m)
        else:
            pick = literal.split(",")
        for m in pick:
            print(json.dumps(run_one(m, literal=True)), flush=True)
        return
    todo = ids or allids
    with ThreadPoolExecutor(jobs) as ex:
        for res in ex.map(run_one, todo):
            print(json.dumps(res), flush=True)


if __name__ == "__main__":
    main()
