#!/usr/bin/env python3
"""regress_fixes.py [Fid ...]

For every 'fixed' entry of known_findings.json: check out a scratch worktree of /repo, revert the fix
commit there (the original defect is back), run the checks of the entry's properties against that
worktree (VERIF_REPO) and report whether they raise the violation again.  /repo is never touched.
A fixed entry suppresses nothing, so every check is expected to exit 1.
"""
import json
import os
import shutil
import subprocess
import sys
import tempfile
from concurrent.futures import ThreadPoolExecutor

VERIF = os.path.dirname(os.path.dirname(os.path.abspath(__file__)))


def sh(cmd, cwd=None, env=None, timeout=3600):
    r = subprocess.run(cmd, shell=True, cwd=cwd, env=env, capture_output=True, text=True, timeout=timeout)
    return r.returncode, r.stdout + r.stderr


def one(entry):
    wt = tempfile.mkdtemp(prefix="rgr-")
    os.rmdir(wt)
    res = {"id": entry["id"], "commit": entry["commit"], "checks": {}}
    try:
        rc, out = sh("git -C /repo worktree add -q --detach %s HEAD" % wt)
        if rc:
            res["error"] = out
            return res
        rc, out = sh("git revert --no-commit %s" % entry["commit"], cwd=wt)
        if rc:
            res["error"] = "revert conflicts: " + out[-300:]
            return res
        env = dict(os.environ, GOFLAGS="-mod=mod", GOPROXY="off", GOSUMDB="off", GOTOOLCHAIN="local")
        rc, out = sh("go build ./... && go test -vet=off -count=1 ./... 2>&1 | tail -3", cwd=wt, env=env)
        res["suite"] = "pass" if rc == 0 and "FAIL" not in out else "fail"
        for p in entry["properties"]:
            rc, out = sh("cd %s && VERIF_REPO=%s VERIF_OUT_DIR=%s-out ./check.py %s --tier quick" % (VERIF, wt, wt, p))
            res["checks"][p] = {"rc": rc, "violation": [l for l in out.splitlines() if l.startswith("VIOLATION")][:1]}
    finally:
        sh("git -C /repo worktree remove --force %s" % wt)
        shutil.rmtree(wt, ignore_errors=True)
        shutil.rmtree(wt + "-out", ignore_errors=True)
    return res


def main():
    kf = json.load(open(os.path.join(VERIF, "known_findings.json")))
    want = set(sys.argv[1:])
    entries = [e for e in kf["fixed"] if not want or e["id"] in want]
    with ThreadPoolExecutor(3) as ex:
        for r in ex.map(one, entries):
            det = [p for p, c in r["checks"].items() if c["rc"] == 1]
            print(json.dumps({"id": r["id"], "commit": r["commit"], "suite_with_defect": r.get("suite"), "detected_by": det,
                              "rcs": {p: c["rc"] for p, c in r["checks"].items()}, "error": r.get("error")}), flush=True)


if __name__ == "__main__":
    main()
