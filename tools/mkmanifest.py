#!/usr/bin/env python3
"""Regenerates /verif/MANIFEST.json from the table below (single place to edit)."""
import json
import os
import subprocess

VERIF = os.path.dirname(os.path.dirname(os.path.abspath(__file__)))

TRUST = ("TLC 1.8 and the TLA+ modules under spec/ (the property formulas are the Contract-level invariants there); "
         "the Go harness (harness/scn) builds functions by reflection from the scenario description and records the "
         "provenance tokens each user function body received/produced - it contains no oracle logic; "
         "iteration orders of the real code are sampled by repetition, all orders are explored only in the model")

# property -> (technique, level text, design ref)
CHECKS = {
    "C01": ("TLA+ Contract invariant C01 (MayMatch table + provenance) checked by TLC on traces recorded from the real library",
            "Every execution of every user function body in thousands of generated scenarios (random families over 6 types/2 interfaces, "
            "names, subtypes, all four function forms, generators, defaults, Redefine and Convert) is recorded with provenance tokens; "
            "TLC evaluates the label-compatibility invariant in every state of the trace specification.", "DESIGN.md C01"),
    "C02": ("TLA+ Contract invariant C02 (least-fixpoint derivability under the upper-bound matching relation) on real traces",
            "TLC computes the least fixpoint of derivable labels per scenario and checks refusal, absence of a target execution and the "
            "dedicated error type on every recorded execution.", "DESIGN.md C02"),
    "C03": ("TLA+ Contract invariant C03 on real traces", "Exact-key scenarios with distractor inputs/converters; TLC checks that no converter body ran and "
            "which supplied token each parameter received.", "DESIGN.md C03"),
    "C04": ("TLA+ Contract invariant C04 (abort on first failing converter, error identity) on real traces",
            "Failing converters are placed at random positions of random converter graphs; each failing execution returns a fresh error object "
            "whose identity is compared with the returned error; TLC checks ordering and identity on every prefix.", "DESIGN.md C04"),
    "C05": ("TLA+ Contract invariant C05 (completeness under the lower-bound relation, outcome stability over repetitions) on real traces",
            "Single-input (cyclic) and acyclic multi-input converter sets; TLC checks success whenever the lower-bound fixpoint derives every "
            "parameter and that all repetitions of a scenario fall in one outcome class.", "DESIGN.md C05"),
    "C06": ("TLA+ Contract invariant C06 on real traces; executions isolated in child processes with stack cap and watchdog",
            "Panics, fatal stack overflows and hangs are observations (ret.kind) judged by TLC; malformed options included.", "DESIGN.md C06"),
    "C08": ("TLA+ Contract invariant C08 on real Redefine + follow-up call traces", "Redefine over single-input converter graphs, all filters; the follow-up "
            "call of the redefined function is recorded and judged too.", "DESIGN.md C08"),
    "C07": ("TLA+ Contract invariant C07 on the spec-enumerated name-affinity families (MC_Family C07a/C07b): Resolver model over all "
            "Dijkstra tie-breaks + real traces with 25/100 repetitions per scenario",
            "Every scenario of the families (2-4 competing same-typed named inputs in every order, converter forms, registration orders, "
            "reverse converter) is explored in the faithful Resolver model over all tie-breaks of the negative-weight Dijkstra and executed "
            "repeatedly on the real library; TLC judges which value was converted and which converter ran.", "DESIGN.md C07"),
    "C18": ("TLA+ model of dijkstra.go (all 3-vertex digraphs, all tie-breaks) + trace validation of real runs (pop hook, results) against "
            "the model and the declarative Bellman-Ford statement",
            "Design: exhaustive TLC over every digraph on 3 vertices/weight set/source/pop order. Code: graphs built through the public API, "
            "every heap pop recorded through the verif hook must be a Pop step of the model (minimum-distance unvisited vertex), the returned "
            "maps must equal the model state and satisfy the declarative property; weights up to 30000 and multiples of 2^28 (traced in units); "
            "re-search through a reversed view after the graph was changed; long sparse graphs (1100-1375 vertices, shortest paths of more than a "
            "thousand edges) judged by the feasibility + tight-predecessor certificate of DijkstraSparse.tla.", "DESIGN.md C18"),
    "C19": ("TLA+ GraphADT (map objects + handles) model-checked exhaustively; TLC-generated and random histories replayed on real Graph "
            "values with a full dump after every operation, validated by GraphTrace",
            "Design: all histories up to the bound satisfy mirror / incident-edge / agreement / reverse-twice / copy-freshness. Code: after "
            "every operation the three maps of every live handle must equal the projection of the specification state, no operation panics "
            "(AddEdge on absent vertices is a no-op) and a shortest-path search through every handle agrees with the adjacency model; "
            "GraphCore!IndInv discharged by Apalache.", "DESIGN.md C19"),
    "C20": ("PlusCal models of dfs/kahn/tarjan model-checked on all 3-vertex digraphs x decline sets x starts x iteration orders; real runs "
            "judged by TLC against declarative definitions (TravTrace)",
            "Design: exhaustive. Code: DFS reports/descents, Kahn order or panic, components and TopoShortestPath recorded on all 512 small "
            "digraphs and random larger ones, judged against restricted reachability, topological order, mutual-reachability classes and "
            "Bellman-Ford distances; weights 0-3 and multiples of 2^29; one shared graph object (built over a removed vertex) sorted before and "
            "after all other routines.", "DESIGN.md C20"),
    "C09": ("TLC-enumerated histories of Call/Convert/Redefine steps on shared objects (Lifecycle.tla) replayed on the real code; ContractTrace "
            "invariants C09 (no user code runs during Redefine) and C09twin (history without its Redefine steps behaves identically)",
            "Every history up to the bound is replayed on ONE set of real objects; histories containing Redefine are replayed again without those "
            "steps on fresh objects and TLC demands identical executions and results phase by phase; plus random Redefine scenarios and call scenarios whose values and converters are all NewFunc defaults (option-less Redefine, then option-less Call).", "DESIGN.md C09"),
    "C10": ("TLA+ Contract invariant C10 on convert/call pairs (Convert and Call of func(T) T on identically built object sets) + Resolver model",
            "Seeded random pairs over concrete and interface target types; TLC checks value/nil/assignability/label of Convert's result and the "
            "agreement of success with the call twin on well-behaved converter sets.", "DESIGN.md C10"),
    "C11": ("Lifecycle histories (C11: at most one execution of a run-once function over a whole history) + Once.tla: every interleaving of the "
            "check/exec/store protocol forced on the real code through gate hooks, adversarial schedules must be infeasible; TLAPS proof of the protocol "
            "for unbounded goroutines",
            "Sequential: all histories up to the bound. Concurrent: TLC enumerates every schedule of G goroutines x uses; each is forced on the "
            "real callDirect with the verif hooks as blocking gates and the observed steps are validated against Once.tla; schedules only the "
            "lock-free protocol allows must not be followable. Unbounded: OnceProof.tla (TLAPS, re-checked by tlapm on every run, action texts compared "
            "with Once.tla) proves AtMostOnce / SameResult / MutualExclusion for any number of goroutines and uses.", "DESIGN.md C11"),
    "C12": ("Sharing.tla (access protocol, all interleavings, NoConflict; TLAPS proof for unbounded goroutines) + real concurrent calls on shared objects under the Go race detector; "
            "every goroutine's call judged as a phase of one combined log by the Contract invariants",
            "Design: no conflicting accesses for every sharing configuration. Code: the race detector is the sensor (TLA+ cannot observe memory "
            "accesses); outcomes of concurrent calls are validated by TLC like sequential ones.", "DESIGN.md C12"),
    "C14": ("Introspect.tla as executable oracle: TLC enumerates every signature descriptor, the harness builds it by reflection, TLC compares the "
            "reported value sets / rejection with Expected(desc)",
            "Exhaustive over the bounded descriptor space (positional lists, marker structs with every tag kind, pointer depth 0-2, error "
            "positions, marker struct mixed with another parameter/result at either position, variadic final parameters, non-function/nil, "
            "statically declared structs with unexported fields and self-referential pointer types; NewFunc under a watchdog).", "DESIGN.md C14"),
    "C15": ("ValueSet.tla as executable oracle (Values, lookups, signature round trip) + Contract invariants over scenarios and histories whose "
            "functions are all assembled with NewValueSet+BuildFunc",
            "Exhaustive over value lists of length <= 3 (names, casing, subtypes, names/subtypes the struct-and-tag representation cannot carry) "
            "and lifted sets; built functions are exercised as targets and converters in random scenarios, the spec-enumerated result-list and "
            "matching families and the Lifecycle histories.", "DESIGN.md C15"),
    "C16": ("TLA+ Contract invariant C16 on the spec-enumerated option family (duplicate keys in every arrangement, default/call splits, nil values, "
            "nil option), name casing varied by the harness; Resolver model with option folding",
            "Exhaustive family; TLC checks which supplied token each parameter received (the last occurrence) and the error on a nil option.", "DESIGN.md C16"),
    "C17": ("ResultAcc.tla as executable oracle: every result-list descriptor (kinds, nil/non-nil, resolution failure) built by reflection, Len/Out/"
            "Err compared by TLC with Expected(desc)", "Exhaustive over result lists of length <= 3, nil / non-nil / typed-nil errors, run-once functions, first and second call.", "DESIGN.md C17"),
    "C13": ("TLA+ Contract invariant C13 on real traces", "Structured fields of the unsatisfied-argument error (Args, Inputs, Converters, text) are recorded "
            "and compared by TLC with the scenario.", "DESIGN.md C13"),
}

NOT_YET = {
}


def main():
    props = [json.loads(l) for l in open(os.path.join(VERIF, "properties.jsonl"))]
    hooks_commits = []
    try:
        out = subprocess.check_output(["git", "-C", "/repo", "log", "--format=%h %s"], text=True)
        hooks_commits = [l.split()[0] for l in out.splitlines() if l.split(" ", 1)[1].startswith("verif:")]
    except Exception:
        pass
    man = {
        "version": 1,
        "setup_cmd": "./setup.sh",
        "hooks": {
            "guard": "verif",
            "enable": "go build -tags verif (the checks build harness/cmd/drive with -tags verif against /repo's working tree)",
            "baseline_off_cmd": "cd /repo && go build ./... && go test -vet=off -count=1 ./...",
            "source_commits": hooks_commits,
            "add_only": True,
        },
        "engines": [
            {"name": "tlc", "path": "spec/", "serves_properties": sorted(CHECKS), "kind_free_text": "TLA+ specifications checked by TLC: exhaustive model checking of the design and trace validation of executions recorded from the real code"},
            {"name": "drive", "path": "harness/", "serves_properties": sorted(CHECKS), "kind_free_text": "Go driver/recorder: synthesises functions from scenario descriptions, runs the real library, writes ndjson traces; replays TLC-generated behaviours"},
        ],
        "checks": [],
        "not_applicable": [],
        "known_findings": "known_findings.json (fixed: F1..F32 with the repairing commit; open: K1 for C07 and K2 for C08, reported as KNOWN-FINDING by checks C07 / C08)",
        "notes": "All verdicts come from TLC evaluating TLA+ invariants, either on the model or on traces recorded from /repo's working tree. Exit 2 = infrastructure problem, never a verdict.",
    }
    for p in props:
        pid = p["id"]
        if pid in CHECKS:
            tech, text, ref = CHECKS[pid]
            man["checks"].append({
                "property_id": pid,
                "quick_cmd": "./check.py %s --tier quick" % pid,
                "thorough_cmd": "./check.py %s --tier thorough" % pid,
                "evidence_file": "evidence/%s.json" % pid,
                "replay_cmd_template": "./check.py --replay {path}",
                "engine": "tlc",
                "level_claimed": {"category": "model_checking", "text": text, "design_ref": ref},
                "level_note": TRUST,
                "technique": tech,
            })
        else:
            man["not_applicable"].append({"property_id": pid, "reason": NOT_YET.get(pid, "check under construction in this round (specification module not yet bound to the code); see DESIGN.md section 4")})
    with open(os.path.join(VERIF, "MANIFEST.json"), "w") as f:
        json.dump(man, f, indent=1)
    print("MANIFEST.json: %d checks, %d not_applicable" % (len(man["checks"]), len(man["not_applicable"])))


if __name__ == "__main__":
    main()
