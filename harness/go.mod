module github.com/hashicorp/go-argmapper/verifh

go 1.14

require (
	github.com/hashicorp/go-argmapper v0.0.0
	github.com/hashicorp/go-hclog v0.14.0
	github.com/hashicorp/go-multierror v1.1.0
)

replace github.com/hashicorp/go-argmapper => /repo
