// Command drive is the dumb driver/recorder of the verification harness: it
// runs scenario descriptions against the real library and writes ndjson
// observations.  All judging happens in TLC.
package main

import (
	"bufio"
	"encoding/json"
	"flag"
	"fmt"
	"io"
	"math/rand"
	"os"
	"os/exec"
	"runtime"
	"runtime/debug"
	"sync"
	"time"

	"github.com/hashicorp/go-argmapper/verifh/scn"
)

func die(format string, a ...interface{}) {
	fmt.Fprintf(os.Stderr, "drive: "+format+"\n", a...)
	os.Exit(2)
}

func main() {
	if len(os.Args) < 2 {
		die("usage: drive <gen|run|child|...> [flags]")
	}
	cmd, args := os.Args[1], os.Args[2:]
	switch cmd {
	case "gen":
		cmdGen(args)
	case "run":
		cmdRun(args)
	case "child":
		cmdChild()
	default:
		if f, ok := extraCmds[cmd]; ok {
			f(args)
			return
		}
		die("unknown command %q", cmd)
	}
}

var extraCmds = map[string]func([]string){}

// ---------------------------------------------------------------- gen

func cmdGen(args []string) {
	fs := flag.NewFlagSet("gen", flag.ExitOnError)
	profile := fs.String("profile", "general", "scenario profile")
	n := fs.Int("n", 100, "number of scenarios")
	seed := fs.Int64("seed", 1, "seed")
	sid0 := fs.Int("sid0", 1, "first scenario id")
	out := fs.String("out", "-", "output file (JSON array)")
	fs.Parse(args)
	scns, err := scn.RandomBatch(*profile, *n, *seed, *sid0)
	if err != nil {
		die("%v", err)
	}
	writeJSON(*out, scns)
}

func writeJSON(path string, v interface{}) {
	b, err := json.Marshal(v)
	if err != nil {
		die("%v", err)
	}
	if path == "-" {
		os.Stdout.Write(b)
		return
	}
	if err := os.WriteFile(path, b, 0644); err != nil {
		die("%v", err)
	}
}

// ---------------------------------------------------------------- run

type item struct {
	Idx  int          `json:"idx"`
	Scn  scn.Scenario `json:"scn"`
	Rep  int          `json:"rep"`
	Seed int64        `json:"seed"`
}

type childReply struct {
	Idx    int               `json:"idx"`
	Events []json.RawMessage `json:"events"`
}

func cmdRun(args []string) {
	fs := flag.NewFlagSet("run", flag.ExitOnError)
	in := fs.String("in", "", "scenario file (JSON array)")
	out := fs.String("out", "-", "trace output (ndjson)")
	reps := fs.Int("reps", 3, "executions per scenario")
	seed := fs.Int64("seed", 1, "seed")
	workers := fs.Int("workers", runtime.NumCPU(), "child processes")
	wd := fs.Duration("watchdog", 10*time.Second, "per-execution watchdog")
	fs.Parse(args)
	var scns []scn.Scenario
	b, err := os.ReadFile(*in)
	if err != nil {
		die("%v", err)
	}
	if err := json.Unmarshal(b, &scns); err != nil {
		die("parse %s: %v", *in, err)
	}
	var items []item
	for _, s := range scns {
		s.Normalize()
		for k := 0; k < *reps; k++ {
			items = append(items, item{Idx: len(items), Scn: s, Rep: k, Seed: *seed*1000003 + int64(s.Sid)*131 + int64(k)})
		}
	}
	results := make([][]json.RawMessage, len(items))
	next := 0
	var mu sync.Mutex
	take := func() *item {
		mu.Lock()
		defer mu.Unlock()
		if next >= len(items) {
			return nil
		}
		it := &items[next]
		next++
		return it
	}
	var wg sync.WaitGroup
	var crashes, timeouts int
	for w := 0; w < *workers; w++ {
		wg.Add(1)
		go func() {
			defer wg.Done()
			var ch *child
			defer func() {
				if ch != nil {
					ch.kill()
				}
			}()
			for {
				it := take()
				if it == nil {
					return
				}
				if ch == nil {
					ch = startChild()
				}
				evs, status := ch.do(it, *wd)
				if status != "" {
					ch.kill()
					ch = nil
					mu.Lock()
					if status == "crash" {
						crashes++
					} else {
						timeouts++
					}
					mu.Unlock()
					reset, _ := json.Marshal(scn.EvReset{Ev: "reset", Sid: it.Scn.Sid, Rep: it.Rep, Scn: it.Scn})
					ph := 1
					ret, _ := json.Marshal(scn.EvRet{Ev: "ret", Kind: status, Missing: []scn.Label{}, EInputs: []scn.Label{}, EConvs: []int{}, Outs: []int{}, Phase: ph})
					evs = []json.RawMessage{reset, ret}
				}
				results[it.Idx] = evs
			}
		}()
	}
	wg.Wait()
	var w *bufio.Writer
	if *out == "-" {
		w = bufio.NewWriter(os.Stdout)
	} else {
		f, err := os.Create(*out)
		if err != nil {
			die("%v", err)
		}
		defer f.Close()
		w = bufio.NewWriterSize(f, 1<<20)
	}
	nev := 0
	for _, evs := range results {
		for _, e := range evs {
			w.Write(e)
			w.WriteByte('\n')
			nev++
		}
	}
	w.Flush()
	fmt.Fprintf(os.Stderr, "drive run: scenarios=%d executions=%d events=%d crashes=%d timeouts=%d\n", len(scns), len(items), nev, crashes, timeouts)
}

type child struct {
	cmd   *exec.Cmd
	stdin io.WriteCloser
	lines chan []byte
}

func startChild() *child {
	cmd := exec.Command(os.Args[0], "child")
	stdin, _ := cmd.StdinPipe()
	stdout, _ := cmd.StdoutPipe()
	cmd.Stderr = nil
	if err := cmd.Start(); err != nil {
		die("start child: %v", err)
	}
	c := &child{cmd: cmd, stdin: stdin, lines: make(chan []byte, 4)}
	go func() {
		rd := bufio.NewReaderSize(stdout, 1<<20)
		for {
			line, err := rd.ReadBytes('\n')
			if len(line) > 0 {
				c.lines <- line
			}
			if err != nil {
				close(c.lines)
				return
			}
		}
	}()
	return c
}

func (c *child) kill() {
	c.stdin.Close()
	c.cmd.Process.Kill()
	c.cmd.Wait()
}

func (c *child) do(it *item, wd time.Duration) ([]json.RawMessage, string) {
	b, _ := json.Marshal(it)
	b = append(b, '\n')
	if _, err := c.stdin.Write(b); err != nil {
		return nil, "crash"
	}
	select {
	case line, ok := <-c.lines:
		if !ok {
			return nil, "crash"
		}
		var rep childReply
		if err := json.Unmarshal(line, &rep); err != nil || rep.Idx != it.Idx {
			return nil, "crash"
		}
		return rep.Events, ""
	case <-time.After(wd):
		return nil, "timeout"
	}
}

func cmdChild() {
	debug.SetMaxStack(64 << 20)
	rd := bufio.NewReaderSize(os.Stdin, 1<<20)
	w := bufio.NewWriter(os.Stdout)
	for {
		line, err := rd.ReadBytes('\n')
		if len(line) > 0 {
			var it item
			if e := json.Unmarshal(line, &it); e != nil {
				die("child: %v", e)
			}
			evs := scn.RunOnce(it.Scn, it.Rep, rand.New(rand.NewSource(it.Seed)))
			rep := childReply{Idx: it.Idx}
			for _, e := range evs {
				b, _ := json.Marshal(e)
				rep.Events = append(rep.Events, b)
			}
			b, _ := json.Marshal(rep)
			w.Write(b)
			w.WriteByte('\n')
			w.Flush()
		}
		if err != nil {
			return
		}
	}
}

// ---------------------------------------------------------------- histories

func init() { extraCmds["life"] = cmdLife }

// cmdLife runs histories of operations on shared objects (in-process; one child per batch is not
// needed here because a hang is itself the observation: every history runs under a watchdog).
func cmdLife(args []string) {
	fs := flag.NewFlagSet("life", flag.ExitOnError)
	in := fs.String("in", "", "histories (JSON array)")
	out := fs.String("out", "-", "trace output")
	reps := fs.Int("reps", 2, "executions per history")
	seed := fs.Int64("seed", 1, "seed")
	wd := fs.Duration("watchdog", 5*time.Second, "per-history watchdog")
	fs.Parse(args)
	var hs []scn.History
	b, err := os.ReadFile(*in)
	if err != nil {
		die("%v", err)
	}
	if err := json.Unmarshal(b, &hs); err != nil {
		die("parse %s: %v", *in, err)
	}
	f, err := os.Create(*out)
	if err != nil {
		die("%v", err)
	}
	defer f.Close()
	w := bufio.NewWriterSize(f, 1<<20)
	defer w.Flush()
	enc := json.NewEncoder(w)
	n, timeouts := 0, 0
	for _, h := range hs {
		if timeouts >= 3 {
			// histories that never finish are observations (recorded below); three of them are enough for a verdict
			break
		}
		for k := 0; k < *reps; k++ {
			done := make(chan []interface{}, 1)
			r := rand.New(rand.NewSource(*seed*7919 + int64(h.Hid)*31 + int64(k)))
			hh := h
			go func() { done <- scn.RunHistory(hh, r) }()
			select {
			case evs := <-done:
				for _, e := range evs {
					enc.Encode(e)
				}
			case <-time.After(*wd):
				// the history hangs (e.g. a lock that is never released): report what is certain
				timeouts++
				s := scn.Scenario{Sid: h.Hid, Mode: "call", Family: h.Family}
				if len(h.Targets) > 0 {
					s.Target = h.Targets[0]
				}
				s.Convs = h.Convs
				s.Normalize()
				enc.Encode(scn.EvReset{Ev: "reset", Sid: h.Hid, Rep: k, Scn: s})
				enc.Encode(scn.EvRet{Ev: "ret", Kind: "timeout", Missing: []scn.Label{}, EInputs: []scn.Label{}, EConvs: []int{}, Outs: []int{}, Phase: 1, Detail: "history did not finish"})
			}
			n++
		}
	}
	fmt.Fprintf(os.Stderr, "drive life: histories=%d executions=%d timeouts=%d\n", len(hs), n, timeouts)
}
