package main

import (
	"bufio"
	"encoding/json"
	"errors"
	"flag"
	"fmt"
	"os"
	"reflect"
	"strings"
	"time"

	am "github.com/hashicorp/go-argmapper"
	"github.com/hashicorp/go-argmapper/verifh/scn"
)

func init() { extraCmds["intro"] = cmdIntro }

var (
	tErr    = reflect.TypeOf((*error)(nil)).Elem()
	tMarker = reflect.TypeOf(am.Struct{})
)

type myErr struct{ ID int }

// a marker struct as a function's result
type resSt struct {
	am.Struct
	Alpha scn.T1
}

func (e *myErr) Error() string { return fmt.Sprintf("myErr %d", e.ID) }

// pointer types defined in terms of themselves (legal Go; reflection cannot synthesise them)
type selfPtr *selfPtr
type selfQ *selfR
type selfR *selfQ

// a struct that embeds a marker struct: the marker is not one of its own fields
type stParams struct {
	am.Struct
	A scn.T1
}
type stBundle struct {
	stParams
	B scn.T2
}

func tyName(t reflect.Type) string {
	switch {
	case t == reflect.TypeOf(stBundle{}):
		return "SB"
	case t == tErr:
		return "E"
	case t == reflect.TypeOf(selfPtr(nil)):
		return "SP"
	case t == reflect.TypeOf(selfQ(nil)):
		return "SQ"
	case t == reflect.TypeOf(selfR(nil)):
		return "SR"
	case t.Kind() == reflect.Slice:
		return "[]" + tyName(t.Elem())
	}
	return scn.TypeName(t)
}

func tyOf(n string) reflect.Type {
	if n == "E" {
		return tErr
	}
	return scn.TypeOf(n)
}

type jval struct {
	Name string `json:"name"`
	Type string `json:"type"`
	Sub  string `json:"sub"`
}

func valuesOf(vs *am.ValueSet) []jval {
	out := []jval{}
	if vs == nil {
		return out
	}
	for _, v := range vs.Values() {
		out = append(out, jval{v.Name, tyName(v.Type), v.Subtype})
	}
	return out
}

func cmdIntro(args []string) {
	fs := flag.NewFlagSet("intro", flag.ExitOnError)
	kind := fs.String("kind", "", "c14 | c15 | c17")
	in := fs.String("in", "", "descriptors (JSON array)")
	out := fs.String("out", "-", "observations (ndjson)")
	reps := fs.Int("reps", 1, "repetitions")
	fs.Parse(args)
	b, err := os.ReadFile(*in)
	if err != nil {
		die("%v", err)
	}
	var descs []json.RawMessage
	if err := json.Unmarshal(b, &descs); err != nil {
		die("parse %s: %v", *in, err)
	}
	f, err := os.Create(*out)
	if err != nil {
		die("%v", err)
	}
	defer f.Close()
	w := bufio.NewWriterSize(f, 1<<20)
	defer w.Flush()
	enc := json.NewEncoder(w)
	n := 0
	for _, d := range descs {
		for k := 0; k < *reps; k++ {
			var obs map[string]interface{}
			func() {
				defer func() {
					if p := recover(); p != nil {
						obs = map[string]interface{}{"ev": "obs", "panic": fmt.Sprint(p), "ok": false, "len": -1, "outs": []int{}, "outnil": []bool{}, "errnil": false, "errtok": -1,
							"unsat": false, "inp": []jval{}, "out": []jval{}, "inp2": []jval{}, "out2": []jval{}, "values": []jval{}, "named": []int{}, "typed": []int{}, "ts": []int{}, "roundtrip": []int{}, "roundtrip2": []int{}, "accept": false}
					}
				}()
				switch *kind {
				case "c17":
					obs = obsC17(d)
				case "c14":
					obs = obsC14(d)
				case "c15":
					obs = obsC15(d)
				case "filter":
					obs = obsFilter(d)
				default:
					die("unknown kind %q", *kind)
				}
			}()
			obs["desc"] = d
			if _, ok := obs["panic"]; !ok {
				obs["panic"] = ""
			}
			enc.Encode(obs)
			n++
		}
	}
	fmt.Fprintf(os.Stderr, "drive intro %s: observations=%d\n", *kind, n)
}

// ---------------------------------------------------------------- C17

type d17 struct {
	Rs     []string `json:"rs"`
	NonNil []bool   `json:"nonnil"`
	Fail   bool     `json:"fail"`
	TNil   bool     `json:"tnil"`
	Once   bool     `json:"once"`
	Second bool     `json:"second"`
	How    string   `json:"how"`
}

func tokOfAny(x interface{}) int {
	switch v := x.(type) {
	case nil:
		return 0
	case *myErr:
		if v == nil {
			return 0
		}
		return v.ID
	case *scn.FailErr:
		if v == nil {
			return 0
		}
		return v.ID
	case resSt:
		return v.Alpha.ID
	case *resSt:
		if v == nil {
			return 0
		}
		return v.Alpha.ID
	}
	return scn.IDOf(reflect.ValueOf(x))
}

// number of outputs of the described function (a final "err" is not one)
func outsOf(d d17) []string {
	if n := len(d.Rs); n > 0 && d.Rs[n-1] == "err" {
		return d.Rs[:n-1]
	}
	return d.Rs
}

func obsC17(raw json.RawMessage) map[string]interface{} {
	var d d17
	if err := json.Unmarshal(raw, &d); err != nil {
		die("c17 desc: %v", err)
	}
	var outT []reflect.Type
	for _, r := range d.Rs {
		switch r {
		case "err":
			outT = append(outT, tErr)
		case "cerr":
			outT = append(outT, reflect.TypeOf(&myErr{}))
		case "st":
			outT = append(outT, reflect.TypeOf(resSt{}))
		case "pst":
			outT = append(outT, reflect.TypeOf(&resSt{}))
		default:
			outT = append(outT, scn.TypeOf(r))
		}
	}
	var inT []reflect.Type
	if d.Fail {
		inT = []reflect.Type{scn.TypeOf("T6")} // nothing supplies it: resolution fails
	}
	fn := reflect.MakeFunc(reflect.FuncOf(inT, outT, false), func([]reflect.Value) []reflect.Value {
		res := make([]reflect.Value, len(d.Rs))
		for i, r := range d.Rs {
			switch r {
			case "err":
				if d.NonNil[i] {
					var e error = &scn.FailErr{Fn: 0, ID: i + 1}
					if d.TNil {
						e = (*scn.FailErr)(nil)
					}
					res[i] = reflect.ValueOf(&e).Elem()
				} else {
					res[i] = reflect.Zero(tErr)
				}
			case "cerr":
				if d.NonNil[i] {
					res[i] = reflect.ValueOf(&myErr{ID: i + 1})
				} else {
					res[i] = reflect.Zero(reflect.TypeOf(&myErr{}))
				}
			case "st":
				res[i] = reflect.ValueOf(resSt{Alpha: scn.MkValue("T1", i+1).Interface().(scn.T1)})
			case "pst":
				if d.NonNil[i] {
					res[i] = reflect.ValueOf(&resSt{Alpha: scn.MkValue("T1", i+1).Interface().(scn.T1)})
				} else {
					res[i] = reflect.Zero(reflect.TypeOf(&resSt{}))
				}
			default:
				res[i] = scn.MkValue(r, i+1)
			}
		}
		return res
	})
	var fopts []am.Arg
	if d.Once {
		fopts = append(fopts, am.FuncOnce())
	}
	f, err := am.NewFunc(fn.Interface(), fopts...)
	if err != nil {
		return map[string]interface{}{"ev": "obs", "len": -1, "outs": []int{}, "outnil": []bool{}, "errnil": false, "errtok": -1, "unsat": false, "detail": "newfunc: " + err.Error()}
	}
	if d.Second {
		// the observed call is the second one; the first one is given what the function needs
		var first []am.Arg
		if d.Fail {
			first = append(first, am.Typed(scn.MkValue("T6", 99).Interface()))
		}
		if r1 := f.Call(first...); d.Fail && r1.Len() != len(outsOf(d)) {
			return map[string]interface{}{"ev": "obs", "len": -1, "outs": []int{}, "outnil": []bool{}, "errnil": false, "errtok": -1, "unsat": false, "detail": "first call did not resolve"}
		}
	}
	var res am.Result
	switch d.How {
	case "redef":
		rf, err := f.Redefine()
		if err != nil {
			return map[string]interface{}{"ev": "obs", "len": -1, "outs": []int{}, "outnil": []bool{}, "errnil": false, "errtok": -1, "unsat": false, "detail": "redefine: " + err.Error()}
		}
		res = rf.Call()
	case "nilarg":
		res = f.Call(nil)
	case "generr":
		res = f.Call(am.Typed(scn.MkValue("T5", 77).Interface()), am.ConverterGen(func(am.Value) (*am.Func, error) { return nil, errors.New("generator refuses") }))
	default:
		res = f.Call()
	}
	obs := map[string]interface{}{"ev": "obs", "len": res.Len()}
	outs := []int{}
	outnil := []bool{}
	for i := 0; i < res.Len(); i++ {
		outs = append(outs, tokOfAny(res.Out(i)))
		outnil = append(outnil, res.Out(i) == nil)
	}
	obs["outs"] = outs
	obs["outnil"] = outnil
	e := res.Err()
	obs["errnil"] = e == nil
	obs["errtok"] = 0
	var ua *am.ErrArgumentUnsatisfied
	obs["unsat"] = e != nil && errors.As(e, &ua)
	if e != nil && !obs["unsat"].(bool) {
		switch e.(type) {
		case *scn.FailErr, *myErr:
			obs["errtok"] = tokOfAny(e)
		} // (an error of the library itself carries no token: 0)
	}
	return obs
}

// ---------------------------------------------------------------- C14

type fld struct {
	FName string `json:"fname"`
	FType string `json:"ftype"`
	Tag   string `json:"tag"`
}
type sideD struct {
	Kind   string   `json:"kind"`
	Ptr    int      `json:"ptr"`
	Types  []string `json:"types"`
	Fields []fld    `json:"fields"`
}
type d14 struct {
	Inp     sideD  `json:"inp"`
	Out     sideD  `json:"out"`
	ErrPos  string `json:"errpos"`
	Special string `json:"special"`
}

var tagText = map[string]string{"none": "", "ren": `argmapper:"Ren"`, "typeOnly": `argmapper:",typeOnly"`,
	"rensub": `argmapper:"Ren,subtype=s"`, "typeOnlysub": `argmapper:",typeOnly,subtype=s"`, "subeq": `argmapper:",typeOnly,subtype=k=v"`, "subup": `argmapper:"Ren,subtype=Foo"`,
	"subfirst": `argmapper:",subtype=s,typeOnly"`, "renopt": `argmapper:"Ren,other"`, "typeOnlyRen": `argmapper:"Ren,typeOnly"`, "subonly": `argmapper:",subtype=s"`}

func sideTypes(s sideD) []reflect.Type {
	switch s.Kind {
	case "none":
		return nil
	case "pos":
		var ts []reflect.Type
		for _, t := range s.Types {
			ts = append(ts, tyOf(t))
		}
		return ts
	}
	sf := []reflect.StructField{{Name: "Struct", Type: tMarker, Anonymous: true}}
	for _, f := range s.Fields {
		sf = append(sf, reflect.StructField{Name: f.FName, Type: tyOf(f.FType), Tag: reflect.StructTag(tagText[f.Tag])})
	}
	t := reflect.StructOf(sf)
	for i := 0; i < s.Ptr; i++ {
		t = reflect.PtrTo(t)
	}
	return []reflect.Type{t}
}

// structs with unexported fields (reflection cannot synthesise them)
type stS1 struct {
	am.Struct
	Alpha scn.T1
	gamma scn.T2 //nolint
}
type stS2in struct {
	am.Struct
	hidden scn.T1 //nolint
	Beta   scn.T2 `argmapper:",typeOnly,subtype=s"`
}
type stS2out struct {
	am.Struct
	Alpha scn.T1
	x     int //nolint
}
type stS3 struct {
	am.Struct
	Alpha   scn.T1 `argmapper:"Ren,subtype=s"`
	skipped scn.T1 //nolint
	BETA    scn.T2
}

type stS9 struct {
	Alpha     scn.T1
	am.Struct // the marker is not the first field
	Beta      scn.T2
}

type stS4 struct {
	am.Struct
	scn.T1 // an embedded exported type is an ordinary field named after the type
	Beta   scn.T2
}

func obsC14(raw json.RawMessage) map[string]interface{} {
	var d d14
	if err := json.Unmarshal(raw, &d); err != nil {
		die("c14 desc: %v", err)
	}
	var fn interface{}
	switch d.Special {
	case "nonfunc":
		fn = 42
	case "nil":
		fn = nil
	case "ptrfunc":
		pf := func(scn.T1) {}
		fn = &pf
	case "S1":
		fn = func(stS1) {}
	case "S2":
		fn = func(stS2in) *stS2out { return nil }
	case "S3":
		fn = func(*stS3) {}
	case "S4":
		fn = func(stS4) {}
	case "S5":
		fn = func(selfPtr) {}
	case "S6":
		fn = func(selfQ, scn.T1) selfR { return nil }
	case "S9":
		fn = func(stS9) {}
	case "S7":
		fn = func(stBundle) {}
	case "S8":
		fn = func(scn.T1, stBundle) stBundle { return stBundle{} }
	default:
		inT := sideTypes(d.Inp)
		outT := sideTypes(d.Out)
		variadic := false
		switch d.Special {
		case "mixedin":
			inT = append(inT, scn.TypeOf("T3"))
		case "mixedin2":
			inT = append([]reflect.Type{scn.TypeOf("T3")}, inT...)
		case "mixedout":
			inT, outT = nil, append(sideTypes(d.Inp), scn.TypeOf("T3"))
		case "mixedout2":
			inT, outT = nil, append([]reflect.Type{scn.TypeOf("T3")}, sideTypes(d.Inp)...)
		case "variadic":
			variadic = true
			inT[len(inT)-1] = reflect.SliceOf(inT[len(inT)-1])
		}
		switch d.ErrPos {
		case "final":
			outT = append(outT, tErr)
		case "middle":
			outT = append([]reflect.Type{outT[0], tErr}, outT[1:]...)
		case "double":
			outT = append(outT, tErr, tErr)
		}
		ft := reflect.FuncOf(inT, outT, variadic)
		fn = reflect.MakeFunc(ft, func([]reflect.Value) []reflect.Value {
			res := make([]reflect.Value, len(outT))
			for i, t := range outT {
				res[i] = reflect.Zero(t)
			}
			return res
		}).Interface()
	}
	// NewFunc runs under a watchdog: a construction that never returns is an observation, not a stuck driver
	type nfRes struct {
		f   *am.Func
		err error
		p   interface{}
	}
	done := make(chan nfRes, 1)
	go func() {
		defer func() {
			if p := recover(); p != nil {
				done <- nfRes{p: p}
			}
		}()
		f, err := am.NewFunc(fn)
		done <- nfRes{f: f, err: err}
	}()
	var f *am.Func
	var err error
	select {
	case r := <-done:
		if r.p != nil {
			panic(r.p)
		}
		f, err = r.f, r.err
	case <-time.After(3 * time.Second):
		return map[string]interface{}{"ev": "obs", "ok": false, "inp": []jval{}, "out": []jval{}, "inp2": []jval{}, "out2": []jval{}, "panic": "timeout: NewFunc did not return"}
	}
	obs := map[string]interface{}{"ev": "obs", "ok": err == nil, "inp": []jval{}, "out": []jval{}, "inp2": []jval{}, "out2": []jval{}}
	if err != nil {
		obs["detail"] = strings.SplitN(err.Error(), "\n", 2)[0]
		return obs
	}
	obs["inp"] = valuesOf(f.Input())
	obs["out"] = valuesOf(f.Output())
	// use the function once as a target and once as a converter (both fail for lack of values - the graph is built all the same)
	func() {
		defer func() { recover() }()
		f.Call()
		am.MustFunc(am.NewFunc(func(struct{ X int }) {})).Call(am.ConverterFunc(f))
	}()
	obs["inp2"] = valuesOf(f.Input())
	obs["out2"] = valuesOf(f.Output())
	return obs
}

// ---------------------------------------------------------------- C15

// symbols of ValueSet.tla for names / subtypes that need care, and the strings they stand for
var oddStrings = map[string]string{"xdotless": "\u0131", "xdigit": "1a", "xunder": "_a", "xcomma": "a,b", "xcomman": "c,d", "xquote": "a\"b", "xback": "a\\b", "xblankn": "a ", "xblanks": " s"}
var oddSymbols = func() map[string]string {
	m := map[string]string{}
	for k, v := range oddStrings {
		m[v] = k
	}
	return m
}()

func realStr(s string) string {
	if r, ok := oddStrings[s]; ok {
		return r
	}
	return s
}

func symStr(s string) string {
	if r, ok := oddSymbols[s]; ok {
		return r
	}
	return s
}

type d15 struct {
	Vals []jval `json:"vals"`
	Kind string `json:"kind"`
}

func obsC15(raw json.RawMessage) map[string]interface{} {
	var d d15
	if err := json.Unmarshal(raw, &d); err != nil {
		die("c15 desc: %v", err)
	}
	mk := func() (*am.ValueSet, error) {
		if d.Kind == "lifted" {
			var ts []reflect.Type
			for _, v := range d.Vals {
				ts = append(ts, tyOf(v.Type))
			}
			f, err := am.NewFunc(reflect.MakeFunc(reflect.FuncOf(ts, nil, false), func([]reflect.Value) []reflect.Value { return nil }).Interface())
			if err != nil {
				return nil, err
			}
			return f.Input(), nil
		}
		if d.Kind == "struct" || d.Kind == "ptrstruct" {
			sf := []reflect.StructField{{Name: "Struct", Type: tMarker, Anonymous: true}}
			for i, v := range d.Vals {
				tag := v.Name
				if v.Name == "" {
					tag += ",typeOnly"
				}
				if v.Sub != "" {
					tag += ",subtype=" + v.Sub
				}
				sf = append(sf, reflect.StructField{Name: fmt.Sprintf("F%d", i), Type: tyOf(v.Type), Tag: reflect.StructTag(fmt.Sprintf("argmapper:%q", tag))})
			}
			st := reflect.StructOf(sf)
			if d.Kind == "ptrstruct" {
				st = reflect.PtrTo(st)
			}
			f, err := am.NewFunc(reflect.MakeFunc(reflect.FuncOf([]reflect.Type{st}, nil, false), func([]reflect.Value) []reflect.Value { return nil }).Interface())
			if err != nil {
				return nil, err
			}
			return f.Input(), nil
		}
		var vs []am.Value
		for _, v := range d.Vals {
			vs = append(vs, am.Value{Name: realStr(v.Name), Type: tyOf(v.Type), Subtype: realStr(v.Sub)})
		}
		return am.NewValueSet(vs)
	}
	n := len(d.Vals)
	obs := map[string]interface{}{"ev": "obs", "ok": false, "values": []jval{}, "named": make([]int, n), "typed": make([]int, n), "ts": make([]int, n), "roundtrip": make([]int, n), "roundtrip2": make([]int, n)}
	set, err := mk()
	if err != nil {
		obs["detail"] = err.Error()
		return obs
	}
	obs["ok"] = true
	rep := valuesOf(set)
	for i := range rep {
		rep[i].Name, rep[i].Sub = symStr(rep[i].Name), symStr(rep[i].Sub)
	}
	obs["values"] = rep
	// which value (by position) does a pointer denote?  mark every value with its position first
	vals := set.Values()
	idx := func(p *am.Value) int {
		if p == nil {
			return 0
		}
		for i, v := range vals {
			if v.Name == p.Name && v.Type == p.Type && v.Subtype == p.Subtype {
				return i + 1
			}
		}
		return -1
	}
	named, typed, ts := make([]int, n), make([]int, n), make([]int, n)
	for i, v := range d.Vals {
		if v.Name != "" {
			named[i] = idx(set.Named(strings.ToLower(realStr(v.Name))))
		}
		typed[i] = idx(set.Typed(tyOf(v.Type)))
		ts[i] = idx(set.TypedSubtype(tyOf(v.Type), realStr(v.Sub)))
	}
	obs["named"], obs["typed"], obs["ts"] = named, typed, ts
	// round trip: put token i into value i, render as a signature, load into a second set
	sig := make([]reflect.Value, 0)
	func() {
		// the set is filled through FromSignature of a hand-made struct / positional list
		if d.Kind == "lifted" {
			for i, v := range d.Vals {
				sig = append(sig, scn.MkValue(v.Type, i+1))
			}
			return
		}
		types := set.Signature()
		if len(types) == 0 {
			return
		}
		st := reflect.New(types[0]).Elem()
		fi := 0
		for i := 0; i < st.NumField(); i++ {
			if st.Type().Field(i).Anonymous {
				continue
			}
			st.Field(i).Set(scn.MkValue(d.Vals[fi].Type, fi+1))
			fi++
		}
		sig = append(sig, st)
	}()
	rt := make([]int, n)
	if len(sig) > 0 || n == 0 {
		if err := set.FromSignature(sig); err != nil {
			obs["detail"] = "FromSignature: " + err.Error()
		}
		rendered := set.SignatureValues()
		again := set.SignatureValues() // a second rendering of the same set
		rt2 := make([]int, n)
		if set3, err := mk(); err == nil {
			if err := set3.FromSignature(again); err == nil {
				for i, v := range set3.Values() {
					rt2[i] = scn.IDOf(v.Value)
				}
			}
		}
		obs["roundtrip2"] = rt2
		set2, err := mk()
		if err == nil {
			if err := set2.FromSignature(rendered); err != nil {
				obs["detail"] = "FromSignature(2): " + err.Error()
			}
			for i, v := range set2.Values() {
				rt[i] = scn.IDOf(v.Value)
			}
		}
	}
	obs["roundtrip"] = rt
	return obs
}

// ---------------------------------------------------------------- filters (Filter.tla)

type fexpr struct {
	Op string  `json:"op"`
	T  string  `json:"t"`
	Fs []fexpr `json:"fs"`
}
type dFilter struct {
	F     fexpr  `json:"f"`
	VT    string `json:"vt"`
	Named bool   `json:"named"`
}

func buildFilter(f fexpr) am.FilterFunc {
	var subs []am.FilterFunc
	for _, x := range f.Fs {
		subs = append(subs, buildFilter(x))
	}
	switch f.Op {
	case "type":
		return am.FilterType(tyOf(f.T))
	case "and":
		return am.FilterAnd(subs...)
	default:
		return am.FilterOr(subs...)
	}
}

func obsFilter(raw json.RawMessage) map[string]interface{} {
	var d dFilter
	if err := json.Unmarshal(raw, &d); err != nil {
		die("filter desc: %v", err)
	}
	v := am.Value{Type: tyOf(d.VT)}
	if d.Named {
		v.Name, v.Subtype = "a", "s"
	}
	return map[string]interface{}{"ev": "obs", "accept": buildFilter(d.F)(v)}
}
