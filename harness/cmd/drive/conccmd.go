package main

import (
	"bufio"
	"encoding/json"
	"flag"
	"fmt"
	"math/rand"
	"os"
	"sync"

	"github.com/hashicorp/go-argmapper/verifh/scn"
)

func init() { extraCmds["conc"] = cmdConc }

// cmdConc runs scenarios with G goroutines calling at the same time on shared objects.  Built with
// `go build -race` the Go race detector watches the library while it does (reports go to stderr and
// make the process exit with status 66).
func cmdConc(args []string) {
	fs := flag.NewFlagSet("conc", flag.ExitOnError)
	in := fs.String("in", "", "scenarios (JSON array)")
	out := fs.String("out", "-", "trace output")
	g := fs.Int("g", 4, "goroutines")
	rounds := fs.Int("rounds", 2, "rounds per scenario and sharing configuration")
	seed := fs.Int64("seed", 1, "seed")
	fs.Parse(args)
	var scns []scn.Scenario
	b, err := os.ReadFile(*in)
	if err != nil {
		die("%v", err)
	}
	if err := json.Unmarshal(b, &scns); err != nil {
		die("parse %s: %v", *in, err)
	}
	f, err := os.Create(*out)
	if err != nil {
		die("%v", err)
	}
	defer f.Close()
	w := bufio.NewWriterSize(f, 1<<20)
	defer w.Flush()
	enc := json.NewEncoder(w)
	var mu sync.Mutex
	ids := map[int64]int{}
	gid := func() int {
		mu.Lock()
		defer mu.Unlock()
		return ids[goid()]
	}
	n := 0
	for _, s := range scns {
		for _, cfg := range []scn.ConcConfig{{G: *g, ShareTarget: true, ShareOpts: true}, {G: *g, ShareTarget: false, ShareOpts: true},
			{G: *g, ShareTarget: true, ShareOpts: false}, {G: *g, ShareTarget: true, ShareOpts: false, PadDefaults: true}} {
			for k := 0; k < *rounds; k++ {
				mu.Lock()
				ids = map[int64]int{}
				mu.Unlock()
				register := func(k int) {
					mu.Lock()
					ids[goid()] = k
					mu.Unlock()
				}
				r := rand.New(rand.NewSource(*seed*31 + int64(s.Sid)*7 + int64(k)))
				for _, e := range scn.RunConcurrent(s, cfg, r, gid, register) {
					enc.Encode(e)
				}
				n++
			}
		}
	}
	fmt.Fprintf(os.Stderr, "drive conc: concurrent runs=%d goroutines=%d\n", n, *g)
}
