package main

import (
	"bufio"
	"bytes"
	"encoding/json"
	"flag"
	"fmt"
	"os"
	"runtime"
	"strconv"
	"sync"
	"time"

	am "github.com/hashicorp/go-argmapper"
)

func init() { extraCmds["once"] = cmdOnce }

// goroutine id of the caller (harness-only trick to attribute hook events to workers)
func goid() int64 {
	var buf [64]byte
	n := runtime.Stack(buf[:], false)
	f := bytes.Fields(buf[:n])
	id, _ := strconv.ParseInt(string(f[1]), 10, 64)
	return id
}

type onceSched struct {
	G     int             `json:"g"`
	Uses  int             `json:"uses"`
	Steps [][]interface{} `json:"steps"` // [g, ev]
	Adv   bool            `json:"adv"`   // adversarial: a schedule the specification forbids; the code must not be able to follow it
}

type oStart struct {
	Ev   string `json:"ev"`
	G    int    `json:"g"`
	Uses int    `json:"uses"`
	Mode string `json:"mode"`
}
type oStep struct {
	Ev string `json:"ev"`
	G  int    `json:"g"`
	E  string `json:"e"`
}
type oEnd struct {
	Ev       string `json:"ev"`
	Mode     string `json:"mode"`
	Execs    int    `json:"execs"`
	First    int    `json:"first"`
	Results  []int  `json:"results"`
	Feasible bool   `json:"feasible"`
	Detail   string `json:"detail"`
}

type oT1 struct{ ID int }
type oT2 struct{ ID int }

type arrival struct {
	g  int
	ev string
}

// runOnce runs g goroutines x uses calls against one shared FuncOnce converter.
// steps == nil: free running (hooks record only); otherwise the hooks are gates and the schedule is forced.
func runOnce(enc *json.Encoder, g, uses int, steps [][]interface{}, wd time.Duration, adv bool) {
	mode := "forced"
	if steps == nil {
		mode = "free"
	}
	if adv {
		mode = "adversarial"
		wd = wd / 8
	}
	enc.Encode(oStart{Ev: "start", G: g, Uses: uses, Mode: mode})
	var mu sync.Mutex
	execs, first := 0, 0
	conv := am.MustFunc(am.NewFunc(func(in oT1) oT2 {
		mu.Lock()
		defer mu.Unlock()
		execs++
		if first == 0 {
			first = execs
		}
		return oT2{ID: execs}
	}, am.FuncOnce()))
	ids := map[int64]int{}
	var idmu sync.Mutex
	arrivals := make(chan arrival, 64)
	release := make([]chan struct{}, g+1)
	for i := range release {
		release[i] = make(chan struct{})
	}
	var observed []oStep
	var obsmu sync.Mutex
	names := map[string]string{"once.enter": "enter", "once.check": "check", "once.exec": "exec", "once.store": "store"}
	am.VerifHook = func(ev string, f *am.Func) {
		if f != conv {
			return
		}
		idmu.Lock()
		w := ids[goid()]
		idmu.Unlock()
		if w == 0 {
			return
		}
		if steps == nil {
			obsmu.Lock()
			observed = append(observed, oStep{Ev: "step", G: w, E: names[ev]})
			obsmu.Unlock()
			return
		}
		arrivals <- arrival{w, names[ev]}
		<-release[w]
	}
	defer func() { am.VerifHook = nil }()
	results := make([][]int, g+1)
	var wg sync.WaitGroup
	startGate := make(chan struct{})
	for w := 1; w <= g; w++ {
		wg.Add(1)
		go func(w int) {
			defer wg.Done()
			idmu.Lock()
			ids[goid()] = w
			idmu.Unlock()
			<-startGate
			for k := 0; k < uses; k++ {
				target := am.MustFunc(am.NewFunc(func(v oT2) int { return v.ID }))
				res := target.Call(am.Typed(oT1{ID: w}), am.ConverterFunc(conv))
				if err := res.Err(); err != nil {
					results[w] = append(results[w], -1)
				} else {
					results[w] = append(results[w], res.Out(0).(int))
				}
			}
		}(w)
	}
	close(startGate)
	done := make(chan struct{})
	go func() { wg.Wait(); close(done) }()
	feasible, detail := true, ""
	if steps != nil {
		// A goroutine advances only when its next step is scheduled: it stays parked in the hook it
		// reached (a parked "check" holds the lock, as the specification says) and is released when the
		// schedule asks for its next step.  Steps after which the specification releases the lock at
		// once (a memo hit, a store) are released immediately.
		waiting := map[int]string{} // arrived, not yet consumed by the schedule
		parked := map[int]bool{}    // consumed by the schedule, still blocked in the hook
		memoSet := false
		for _, st := range steps {
			sg := int(st[0].(float64))
			sev := st[1].(string)
			if parked[sg] {
				parked[sg] = false
				release[sg] <- struct{}{}
			}
			deadline := time.After(wd)
			for waiting[sg] != sev && feasible {
				select {
				case a := <-arrivals:
					waiting[a.g] = a.ev
				case <-deadline:
					feasible = false
					detail = fmt.Sprintf("goroutine %d never reached %s (arrived: %v)", sg, sev, waiting)
				}
			}
			if !feasible {
				break
			}
			delete(waiting, sg)
			obsmu.Lock()
			observed = append(observed, oStep{Ev: "step", G: sg, E: sev})
			obsmu.Unlock()
			if sev == "store" || (sev == "check" && memoSet) {
				if sev == "store" {
					memoSet = true
				}
				release[sg] <- struct{}{}
			} else {
				parked[sg] = true
			}
		}
		for w2, p := range parked {
			if p {
				waiting[w2] = "parked"
			}
		}
		// let everything that is still parked (or arrives later) run to completion
		go func() {
			for {
				select {
				case a := <-arrivals:
					release[a.g] <- struct{}{}
				case <-done:
					return
				}
			}
		}()
		for w2 := range waiting {
			select {
			case release[w2] <- struct{}{}:
			default:
			}
		}
	}
	select {
	case <-done:
	case <-time.After(4 * wd):
		feasible = false
		detail = "run did not finish"
	}
	obsmu.Lock()
	for _, s := range observed {
		enc.Encode(s)
	}
	obsmu.Unlock()
	end := oEnd{Ev: "end", Mode: mode, Execs: execs, First: first, Results: []int{}, Feasible: feasible, Detail: detail}
	for w := 1; w <= g; w++ {
		end.Results = append(end.Results, results[w]...)
	}
	enc.Encode(end)
}

func cmdOnce(args []string) {
	fs := flag.NewFlagSet("once", flag.ExitOnError)
	in := fs.String("in", "", "schedules emitted by TLC (JSON array); empty = free running only")
	free := fs.Int("free", 200, "free-running rounds")
	g := fs.Int("g", 3, "goroutines of the free-running rounds")
	uses := fs.Int("uses", 2, "uses per goroutine of the free-running rounds")
	out := fs.String("out", "-", "trace output")
	wd := fs.Duration("watchdog", 2*time.Second, "per-step watchdog of forced schedules")
	fs.Parse(args)
	f, err := os.Create(*out)
	if err != nil {
		die("%v", err)
	}
	defer f.Close()
	w := bufio.NewWriterSize(f, 1<<20)
	defer w.Flush()
	enc := json.NewEncoder(w)
	n := 0
	if *in != "" {
		var ss []onceSched
		b, err := os.ReadFile(*in)
		if err != nil {
			die("%v", err)
		}
		if err := json.Unmarshal(b, &ss); err != nil {
			die("parse %s: %v", *in, err)
		}
		for _, s := range ss {
			if s.G != *g || s.Uses != *uses {
				continue
			}
			runOnce(enc, s.G, s.Uses, s.Steps, *wd, s.Adv)
			n++
		}
	}
	for i := 0; i < *free; i++ {
		runOnce(enc, *g, *uses, nil, *wd, false)
		n++
	}
	fmt.Fprintf(os.Stderr, "drive once: runs=%d\n", n)
}
