package main

import (
	"bufio"
	"encoding/json"
	"flag"
	"fmt"
	"math/rand"
	"os"
	"sort"

	"github.com/hashicorp/go-argmapper/internal/graph"
)

func init() {
	extraCmds["graph-hist"] = cmdGraphHist
}

// gv is a vertex with a hash code (identity) and a payload version.
type gv struct {
	K   string
	Ver int
}

func (v *gv) Hashcode() interface{} { return v.K }
func (v *gv) String() string        { return fmt.Sprintf("%s#%d", v.K, v.Ver) }

// hv is a vertex identified by its hash code, not by its pointer: every API call gets a fresh pointer.
type hv struct{ ID int }

func (v *hv) Hashcode() interface{} { return v.ID }

// hashableVerts: the int-vertex drivers (dijkstra, trav) use *hv vertices instead of plain ints (chosen per run)
var hashableVerts bool

func mkV(i int) graph.Vertex {
	if hashableVerts {
		return &hv{ID: i}
	}
	return i
}

func idOf(v interface{}) (int, bool) {
	switch x := v.(type) {
	case int:
		return x, true
	case *hv:
		if x != nil {
			return x.ID, true
		}
	}
	return 0, false
}

type gop struct {
	Op  string `json:"op"`
	H   int    `json:"h"`
	K   string `json:"k"`
	Ver int    `json:"ver"`
	A   string `json:"a"`
	B   string `json:"b"`
	W   int    `json:"w"`
}

type gobs struct {
	Verts  [][]interface{} `json:"verts"`
	ORows  []string        `json:"orows"`
	IRows  []string        `json:"irows"`
	OEdges [][]interface{} `json:"oedges"`
	IEdges [][]interface{} `json:"iedges"`
	APIOut [][]string      `json:"apiout"`
	APIIn  [][]string      `json:"apiin"`
	// a shortest-path search through this handle from one present vertex (src "" = none): reached vertices with distances
	DjSrc  string          `json:"djsrc"`
	DjDist [][]interface{} `json:"djdist"`
}

type gevent struct {
	gop
	Applied bool   `json:"applied"` // false: the real graph did not meet the operation's precondition (the specification's did)
	Panic   string `json:"panic"`   // the operation panicked (recovered; the dump shows what it left behind)
	Obs     []gobs `json:"obs"`
}

func keyOf(x interface{}) string {
	if s, ok := x.(string); ok {
		return s
	}
	return fmt.Sprintf("?%v", x)
}

func nameOf(v graph.Vertex) string {
	if g, ok := v.(*gv); ok && g != nil {
		return g.K
	}
	return "<nil>"
}

// observe dumps the three maps of a graph (hook accessor) and the public view.
func observe(g *graph.Graph) gobs {
	o := gobs{Verts: [][]interface{}{}, ORows: []string{}, IRows: []string{}, OEdges: [][]interface{}{}, IEdges: [][]interface{}{}, APIOut: [][]string{}, APIIn: [][]string{}}
	out, in, hash := g.VerifDump()
	for k, v := range hash {
		ver := -1
		if x, ok := v.(*gv); ok {
			ver = x.Ver
		}
		o.Verts = append(o.Verts, []interface{}{keyOf(k), ver})
	}
	for a, row := range out {
		o.ORows = append(o.ORows, keyOf(a))
		for b, w := range row {
			o.OEdges = append(o.OEdges, []interface{}{keyOf(a), keyOf(b), w + 1}) // the trace writes weight k as k+1 (0 = no edge)
		}
	}
	for a, row := range in {
		o.IRows = append(o.IRows, keyOf(a))
		for b, w := range row {
			o.IEdges = append(o.IEdges, []interface{}{keyOf(a), keyOf(b), w + 1})
		}
	}
	for _, v := range g.Vertices() {
		for _, w := range g.OutEdges(v) {
			o.APIOut = append(o.APIOut, []string{nameOf(v), nameOf(w)})
		}
		for _, w := range g.InEdges(v) {
			o.APIIn = append(o.APIIn, []string{nameOf(v), nameOf(w)})
		}
	}
	o.DjDist = [][]interface{}{}
	if len(hash) > 0 {
		// the source is the first present key in an order that changes from dump to dump
		keys := make([]string, 0, len(hash))
		for k := range hash {
			keys = append(keys, keyOf(k))
		}
		sort.Strings(keys)
		djTurn++
		o.DjSrc = keys[djTurn%len(keys)]
		func() {
			defer func() {
				if p := recover(); p != nil {
					o.DjDist = append(o.DjDist, []interface{}{"panic", -1})
				}
			}()
			dist, _ := g.Dijkstra(&gv{K: o.DjSrc})
			for k, d := range dist {
				if d >= 0 && d < 1<<30 {
					o.DjDist = append(o.DjDist, []interface{}{keyOf(k), d})
				}
			}
		}()
	}
	sort.Slice(o.Verts, func(i, j int) bool { return o.Verts[i][0].(string) < o.Verts[j][0].(string) })
	sort.Strings(o.ORows)
	sort.Strings(o.IRows)
	return o
}

var djTurn int

type ghist struct {
	graphs   []*graph.Graph
	panicked string
}

func (h *ghist) apply(op gop, maxHandles int) (ok bool) {
	h.panicked = ""
	if op.H < 1 || op.H > len(h.graphs) {
		return false
	}
	g := h.graphs[op.H-1]
	defer func() {
		if p := recover(); p != nil {
			h.panicked = fmt.Sprint(p)
			ok = true
		}
	}()
	switch op.Op {
	case "add":
		g.Add(&gv{op.K, op.Ver})
	case "addow":
		g.AddOverwrite(&gv{op.K, op.Ver})
	case "adde":
		// (an endpoint that is not in the graph: documented to do nothing)
		// the history's weight label W stands for the real weight W-1 (so that 0 is a weight like any other)
		if op.W == 2 {
			g.AddEdge(&gv{K: op.A}, &gv{K: op.B})
		} else {
			g.AddEdgeWeighted(&gv{K: op.A}, &gv{K: op.B}, op.W-1)
		}
	case "reme":
		g.RemoveEdge(&gv{K: op.A}, &gv{K: op.B})
	case "remv":
		g.Remove(&gv{K: op.K})
	case "copy":
		if len(h.graphs) >= maxHandles {
			return false
		}
		h.graphs = append(h.graphs, g.Copy())
	case "reverse":
		if len(h.graphs) >= maxHandles {
			return false
		}
		h.graphs = append(h.graphs, g.Reverse())
	default:
		return false
	}
	return true
}

func (h *ghist) obs() []gobs {
	out := make([]gobs, len(h.graphs))
	for i, g := range h.graphs {
		out[i] = observe(g)
	}
	return out
}

func cmdGraphHist(args []string) {
	fs := flag.NewFlagSet("graph-hist", flag.ExitOnError)
	n := fs.Int("n", 100, "number of random histories")
	length := fs.Int("len", 30, "operations per history")
	seed := fs.Int64("seed", 1, "seed")
	in := fs.String("in", "", "JSON file with histories generated by TLC ([[op...]...]) to replay in addition")
	out := fs.String("out", "-", "trace output")
	nkeys := fs.Int("keys", 3, "number of vertex keys")
	maxHandles := fs.Int("handles", 3, "maximum number of graph handles")
	fs.Parse(args)
	keys := []string{"a", "b", "c", "d", "e"}[:*nkeys]
	r := rand.New(rand.NewSource(*seed))
	var w *bufio.Writer
	if *out == "-" {
		w = bufio.NewWriter(os.Stdout)
	} else {
		f, err := os.Create(*out)
		if err != nil {
			die("%v", err)
		}
		defer f.Close()
		w = bufio.NewWriterSize(f, 1<<20)
	}
	enc := json.NewEncoder(w)
	nops := 0
	start := func() *ghist {
		h := &ghist{graphs: []*graph.Graph{{}}}
		// the zero Graph allocates its maps lazily; Reverse/Add do it - make the first dump well defined
		enc.Encode(gevent{gop: gop{Op: "reset", H: 1, K: keys[0], A: keys[0], B: keys[0]}, Applied: true, Obs: h.obsInit()})
		return h
	}
	if *in != "" {
		var hs [][]gop
		b, err := os.ReadFile(*in)
		if err != nil {
			die("%v", err)
		}
		if err := json.Unmarshal(b, &hs); err != nil {
			die("parse %s: %v", *in, err)
		}
		for _, ops := range hs {
			h := start()
			for _, op := range ops {
				ok := h.apply(op, *maxHandles)
				enc.Encode(gevent{gop: op, Applied: ok, Panic: h.panicked, Obs: h.obs()})
				nops++
			}
		}
	}
	opNames := []string{"add", "add", "addow", "adde", "adde", "adde", "adde", "reme", "remv", "copy", "reverse"}
	for i := 0; i < *n; i++ {
		h := start()
		for j := 0; j < *length; {
			op := gop{Op: opNames[r.Intn(len(opNames))], H: 1 + r.Intn(len(h.graphs)), K: keys[r.Intn(len(keys))],
				A: keys[r.Intn(len(keys))], B: keys[r.Intn(len(keys))]}
			switch op.Op {
			case "add", "addow":
				op.Ver = 1 + r.Intn(2)
			case "adde":
				op.W = 1 + r.Intn(3)
			}
			if op.Op == "adde" && r.Intn(3) > 0 {
				g := h.graphs[op.H-1]
				if g.Vertex(op.A) == nil || g.Vertex(op.B) == nil {
					continue // mostly edges between present vertices: draw again (not counted)
				}
			}
			if !h.apply(op, *maxHandles) {
				j++
				continue
			}
			enc.Encode(gevent{gop: op, Applied: true, Panic: h.panicked, Obs: h.obs()})
			nops++
			j++
		}
	}
	w.Flush()
	fmt.Fprintf(os.Stderr, "drive graph-hist: operations=%d\n", nops)
}

// obsInit dumps a fresh zero Graph (nil maps are reported as empty).
func (h *ghist) obsInit() []gobs { return h.obs() }

// ---------------------------------------------------------------- dijkstra

func init() { extraCmds["dijkstra"] = cmdDijkstra }

type dGraph struct {
	Ev  string  `json:"ev"`
	N   int     `json:"n"`
	W   [][]int `json:"w"`
	Src int     `json:"src"`
}
type dPop struct {
	Ev string `json:"ev"`
	V  int    `json:"v"`
	D  int    `json:"d"`
}
type dResult struct {
	Ev    string  `json:"ev"`
	Dist  []int   `json:"dist"`
	Prev  []int   `json:"prev"`
	Paths [][]int `json:"paths"`
}

// unit: every weight of the graph is a multiple of it.  The trace carries weights and distances in units
// (TLC's integers are 32 bit); a distance that is not a whole, small number of units is recorded as -777777,
// a value no distance of the specification takes.
func inUnits(d, unit int) int {
	if unit <= 1 {
		if d > 2147483647 || d < -2147483647 {
			return -777777
		}
		return d
	}
	if d%unit != 0 || d/unit > 1000 || d/unit < -1000 {
		return -777777
	}
	return d / unit
}

// runDijkstra builds the graph through the public API in a random insertion order and records the run.
func runDijkstra(enc *json.Encoder, n int, w [][]int, src int, r *rand.Rand, unit int) {
	hashableVerts = r.Intn(2) == 0
	var g graph.Graph
	for _, i := range r.Perm(n) {
		g.Add(mkV(i + 1))
	}
	type edge struct{ a, b, w int }
	var es []edge
	for a := 0; a < n; a++ {
		for b := 0; b < n; b++ {
			if w[a][b] >= 0 {
				es = append(es, edge{a + 1, b + 1, w[a][b]})
			}
		}
	}
	r.Shuffle(len(es), func(i, j int) { es[i], es[j] = es[j], es[i] })
	for _, e := range es {
		if e.w == 1 && unit == 1 && r.Intn(2) == 0 {
			g.AddEdge(mkV(e.a), mkV(e.b))
		} else {
			g.AddEdgeWeighted(mkV(e.a), mkV(e.b), e.w*unit)
		}
	}
	searchAndRecord(enc, &g, n, w, src, unit)
	if r.Intn(3) == 0 {
		// the graph object lives on: it is changed through this handle and searched again through a reversed
		// view that has already been searched once (a search must see the graph as it is now)
		rv := g.Reverse()
		rv.Dijkstra(mkV(src))
		w2 := make([][]int, n)
		for a := range w {
			w2[a] = append([]int{}, w[a]...)
		}
		for k := 1 + r.Intn(2); k > 0; k-- {
			a, b := r.Intn(n), r.Intn(n)
			if w2[a][b] >= 0 && r.Intn(2) == 0 {
				g.RemoveEdge(mkV(a+1), mkV(b+1))
				w2[a][b] = -1
			} else {
				nw := r.Intn(4)
				if len(es) > 0 && r.Intn(2) == 0 {
					nw = es[r.Intn(len(es))].w
				}
				g.AddEdgeWeighted(mkV(a+1), mkV(b+1), nw*unit)
				w2[a][b] = nw
			}
		}
		wt := make([][]int, n)
		for a := 0; a < n; a++ {
			wt[a] = make([]int, n)
			for b := 0; b < n; b++ {
				wt[a][b] = w2[b][a]
			}
		}
		searchAndRecord(enc, rv, n, wt, src, unit)
	}
}

type dSparse struct {
	Ev    string  `json:"ev"`
	N     int     `json:"n"`
	Edges [][]int `json:"edges"`
	Dist  []int   `json:"dist"`
	Prev  []int   `json:"prev"`
	Path  []int   `json:"path"` // EdgeToPath of the last vertex
}

// runSparse: a long graph (more than a thousand vertices, shortest paths of more than a thousand edges): the chain
// 1 -> 2 -> ... -> n (weights 1..2) plus skip edges forward - all of them heavier than the stretch of chain they skip
// when heavyOnly, else about half of them real shortcuts - plus edges backward.  Source 1, every vertex reachable.
func runSparse(enc *json.Encoder, n int, heavyOnly bool, r *rand.Rand) {
	hashableVerts = r.Intn(2) == 0
	type key struct{ a, b int }
	ws := map[key]int{}
	pre := make([]int, n+1) // pre[i] = weight of the chain from 1 to i
	for i := 1; i < n; i++ {
		w := 1 + r.Intn(2)
		ws[key{i, i + 1}] = w
		pre[i+1] = pre[i] + w
	}
	for k := 0; k < n/4; k++ {
		i := 1 + r.Intn(n-2)
		j := i + 2 + r.Intn(60)
		if j > n {
			j = n
		}
		if j-i < 2 {
			continue
		}
		along := pre[j] - pre[i]
		w := along + 1 + r.Intn(5)
		if !heavyOnly && r.Intn(2) == 0 {
			w = 1 + r.Intn(along)
		}
		ws[key{i, j}] = w
	}
	for k := 0; k < n/10; k++ {
		j := 1 + r.Intn(n-1)
		i := j + 1 + r.Intn(n-j)
		ws[key{i, j}] = 1 + r.Intn(3)
	}
	var g graph.Graph
	for _, i := range r.Perm(n) {
		g.Add(mkV(i + 1))
	}
	rec := dSparse{Ev: "sparse", N: n, Dist: make([]int, n), Prev: make([]int, n), Path: []int{}}
	for k, w := range ws { // (map order: a random insertion order)
		g.AddEdgeWeighted(mkV(k.a), mkV(k.b), w)
		rec.Edges = append(rec.Edges, []int{k.a, k.b, w})
	}
	distTo, edgeTo := g.Dijkstra(mkV(1))
	for v := 1; v <= n; v++ {
		rec.Dist[v-1] = inUnits(distTo[v], 1)
		if p, ok := idOf(edgeTo[v]); ok {
			rec.Prev[v-1] = p
		}
	}
	// (a cyclic predecessor map would keep EdgeToPath busy for ever: follow it here with a bound first)
	cur, steps := n, 0
	for ; cur != 0 && steps <= n; steps++ {
		cur = rec.Prev[cur-1]
	}
	if steps > n {
		rec.Path = []int{-1}
	} else {
		for _, x := range g.EdgeToPath(mkV(n), edgeTo) {
			xi, _ := idOf(x)
			rec.Path = append(rec.Path, xi)
		}
	}
	enc.Encode(rec)
}

// searchAndRecord runs one search and writes the graph / pops / result lines of it.
func searchAndRecord(enc *json.Encoder, g *graph.Graph, n int, w [][]int, src int, unit int) {
	enc.Encode(dGraph{Ev: "graph", N: n, W: w, Src: src})
	graph.VerifPopHook = func(v interface{}, d int) {
		x, _ := idOf(v)
		enc.Encode(dPop{Ev: "pop", V: x, D: inUnits(d, unit)})
	}
	distTo, edgeTo := g.Dijkstra(mkV(src))
	graph.VerifPopHook = nil
	res := dResult{Ev: "result", Dist: make([]int, n), Prev: make([]int, n), Paths: make([][]int, n)}
	for v := 1; v <= n; v++ {
		res.Dist[v-1] = inUnits(distTo[v], unit)
		if p, ok := idOf(edgeTo[v]); ok {
			res.Prev[v-1] = p
		}
		res.Paths[v-1] = []int{}
		// EdgeToPath follows the predecessor map until it ends; on a cyclic map it would never
		// return, so a cycle is reported as the observation [-1] instead of calling it
		cyclic, cur := false, v
		for steps := 0; cur != 0; steps++ {
			if steps > n {
				cyclic = true
				break
			}
			p, _ := idOf(edgeTo[cur])
			cur = p
		}
		if cyclic {
			res.Paths[v-1] = []int{-1}
			continue
		}
		for _, x := range g.EdgeToPath(mkV(v), edgeTo) {
			xi, _ := idOf(x)
			res.Paths[v-1] = append(res.Paths[v-1], xi)
		}
	}
	enc.Encode(res)
}

func cmdDijkstra(args []string) {
	fs := flag.NewFlagSet("dijkstra", flag.ExitOnError)
	n := fs.Int("n", 3, "vertices")
	mode := fs.String("mode", "random", "all (every digraph with weights from -weights) | random")
	count := fs.Int("count", 1000, "number of random graphs")
	maxw := fs.Int("maxw", 3, "random: weights 0..maxw")
	weights := fs.String("weights", "1", "all: comma separated weights besides 'absent'")
	dens := fs.Float64("density", 0.4, "random: edge probability")
	reps := fs.Int("reps", 1, "runs per graph and source (different insertion orders)")
	seed := fs.Int64("seed", 1, "seed")
	out := fs.String("out", "-", "trace output")
	unit := fs.Int("unit", 1, "every weight is multiplied by this unit in the real graph; the trace is written in units")
	fs.Parse(args)
	r := rand.New(rand.NewSource(*seed))
	f, err := os.Create(*out)
	if err != nil {
		die("%v", err)
	}
	defer f.Close()
	bw := bufio.NewWriterSize(f, 1<<20)
	defer bw.Flush()
	enc := json.NewEncoder(bw)
	runs := 0
	if *mode == "sparse" {
		for c := 0; c < *count; c++ {
			runSparse(enc, *n+r.Intn(*n/4+1), c%2 == 0, r)
			runs++
		}
		fmt.Fprintf(os.Stderr, "drive dijkstra sparse: runs=%d\n", runs)
		return
	}
	if *mode == "all" {
		var ws []int
		for _, s := range splitInts(*weights) {
			ws = append(ws, s)
		}
		opts := append([]int{-1}, ws...)
		cells := *n * *n
		idx := make([]int, cells)
		for {
			w := make([][]int, *n)
			for a := 0; a < *n; a++ {
				w[a] = make([]int, *n)
				for b := 0; b < *n; b++ {
					w[a][b] = opts[idx[a**n+b]]
				}
			}
			for src := 1; src <= *n; src++ {
				for k := 0; k < *reps; k++ {
					runDijkstra(enc, *n, w, src, r, *unit)
					runs++
				}
			}
			i := 0
			for ; i < cells; i++ {
				idx[i]++
				if idx[i] < len(opts) {
					break
				}
				idx[i] = 0
			}
			if i == cells {
				break
			}
		}
	} else {
		for c := 0; c < *count; c++ {
			w := make([][]int, *n)
			for a := 0; a < *n; a++ {
				w[a] = make([]int, *n)
				for b := 0; b < *n; b++ {
					w[a][b] = -1
					if r.Float64() < *dens {
						w[a][b] = r.Intn(*maxw + 1)
					}
				}
			}
			for k := 0; k < *reps; k++ {
				runDijkstra(enc, *n, w, 1+r.Intn(*n), r, *unit)
				runs++
			}
		}
	}
	fmt.Fprintf(os.Stderr, "drive dijkstra: runs=%d\n", runs)
}

func splitInts(s string) []int {
	var out []int
	cur, has, neg := 0, false, false
	for _, c := range s + "," {
		switch {
		case c == '-':
			neg = true
		case c >= '0' && c <= '9':
			cur = cur*10 + int(c-'0')
			has = true
		default:
			if has {
				if neg {
					cur = -cur
				}
				out = append(out, cur)
			}
			cur, has, neg = 0, false, false
		}
	}
	return out
}

// ---------------------------------------------------------------- traversals

func init() { extraCmds["trav"] = cmdTrav }

type tDFS struct {
	Decline  []int `json:"decline"`
	Start    int   `json:"start"`
	Reports  []int `json:"reports"`
	Descents []int `json:"descents"`
}
type tKahn struct {
	Panic bool  `json:"panic"`
	Order []int `json:"order"`
}
type tTopo struct {
	Ran      bool  `json:"ran"`
	Dist     []int `json:"dist"`
	Prev     []int `json:"prev"`
	Dijkstra []int `json:"dijkstra"`
}
type tEvent struct {
	Ev     string  `json:"ev"`
	N      int     `json:"n"`
	Edges  [][]int `json:"edges"`
	Shared bool    `json:"shared"` // all routines ran on ONE graph object (built with an extra, later removed vertex)
	DFS    []tDFS  `json:"dfs"`
	Kahn   tKahn   `json:"kahn"`
	Kahn2  tKahn   `json:"kahn2"` // a second sort of the same object, after every other routine ran
	SCC    [][]int `json:"scc"`
	Topo   tTopo   `json:"topo"`
}

// travUnit: every weight of the graphs of the trav command is multiplied by it in the real graph (-unit)
var travUnit = 1

func buildIntGraph(n int, edges [][]int, r *rand.Rand) *graph.Graph {
	var g graph.Graph
	for _, i := range r.Perm(n) {
		g.Add(mkV(i + 1))
	}
	for _, i := range r.Perm(len(edges)) {
		e := edges[i]
		g.AddEdgeWeighted(mkV(e[0]), mkV(e[1]), e[2]*travUnit)
	}
	return &g
}

// buildDetour builds the same graph by a detour: an extra vertex with random edges to and from the others is
// added first and removed at the end (what remains must be exactly the graph of the edge list).
func buildDetour(n int, edges [][]int, r *rand.Rand) *graph.Graph {
	var g graph.Graph
	x := n + 1
	for _, i := range r.Perm(n + 1) {
		g.Add(mkV(i + 1))
	}
	for v := 1; v <= n; v++ {
		if r.Intn(2) == 0 {
			g.AddEdgeWeighted(mkV(x), mkV(v), r.Intn(3))
		}
		if r.Intn(2) == 0 {
			g.AddEdgeWeighted(mkV(v), mkV(x), r.Intn(3))
		}
	}
	for _, i := range r.Perm(len(edges)) {
		e := edges[i]
		g.AddEdgeWeighted(mkV(e[0]), mkV(e[1]), e[2]*travUnit)
	}
	g.Remove(mkV(x))
	return &g
}

func kahnOf(g *graph.Graph) (k tKahn) {
	defer func() {
		if p := recover(); p != nil {
			k = tKahn{Panic: true, Order: []int{}}
		}
	}()
	k = tKahn{Order: []int{}}
	for _, v := range g.KahnSort() {
		x, _ := idOf(v)
		k.Order = append(k.Order, x)
	}
	return k
}

func runTrav(enc *json.Encoder, n int, edges [][]int, r *rand.Rand, allDecline bool) {
	ev := tEvent{Ev: "trav", N: n, Edges: edges, DFS: []tDFS{}, SCC: [][]int{}}
	if ev.Edges == nil {
		ev.Edges = [][]int{}
	}
	// Every other run uses one graph object for all routines (none of them may change it), built by a
	// detour over a removed vertex; the others build a fresh object per routine.
	ev.Shared = r.Intn(2) == 0
	hashableVerts = r.Intn(2) == 0
	var shared *graph.Graph
	if ev.Shared {
		shared = buildDetour(n, edges, r)
	}
	buildIntGraph := func(n int, edges [][]int, r *rand.Rand) *graph.Graph {
		if shared != nil {
			return shared
		}
		return buildIntGraph(n, edges, r)
	}
	ev.Kahn = kahnOf(buildIntGraph(n, edges, r)) // first: the later routines see the object after a sort
	// DFS from every start, for every (or a few random) decline sets
	nsets := 1 << uint(n)
	for start := 1; start <= n; start++ {
		for k := 0; k < nsets; k++ {
			mask := k
			if !allDecline {
				if k >= 3 {
					break
				}
				mask = r.Intn(nsets)
			}
			g := buildIntGraph(n, edges, r)
			d := tDFS{Start: start, Decline: []int{}, Reports: []int{}, Descents: []int{}}
			decl := map[int]bool{}
			for v := 1; v <= n; v++ {
				if mask&(1<<uint(v-1)) != 0 {
					decl[v] = true
					d.Decline = append(d.Decline, v)
				}
			}
			g.DFS(mkV(start), func(v graph.Vertex, next func() error) error {
				x, _ := idOf(v)
				d.Reports = append(d.Reports, x)
				if decl[x] {
					return nil
				}
				d.Descents = append(d.Descents, x)
				return next()
			})
			ev.DFS = append(ev.DFS, d)
		}
	}
	// SCC
	{
		g := buildIntGraph(n, edges, r)
		for _, c := range g.StronglyConnected() {
			comp := []int{}
			for _, v := range c {
				ci, _ := idOf(v)
				comp = append(comp, ci)
			}
			ev.SCC = append(ev.SCC, comp)
		}
	}
	// TopoShortestPath on single-rooted DAGs
	ev.Topo = tTopo{Dist: make([]int, n), Prev: make([]int, n), Dijkstra: make([]int, n)}
	if !ev.Kahn.Panic {
		indeg := make([]int, n+1)
		for _, e := range edges {
			indeg[e[1]]++
		}
		roots := []int{}
		for v := 1; v <= n; v++ {
			if indeg[v] == 0 {
				roots = append(roots, v)
			}
		}
		if len(roots) == 1 {
			g := buildIntGraph(n, edges, r)
			distTo, edgeTo := g.TopoShortestPath(g.KahnSort())
			dj, _ := g.Dijkstra(mkV(roots[0]))
			ev.Topo.Ran = true
			for v := 1; v <= n; v++ {
				if d, ok := distTo[v]; ok {
					ev.Topo.Dist[v-1] = inUnits(d, travUnit)
				} else {
					ev.Topo.Dist[v-1] = -1
				}
				if p, ok := idOf(edgeTo[v]); ok {
					ev.Topo.Prev[v-1] = p
				}
				ev.Topo.Dijkstra[v-1] = inUnits(dj[v], travUnit)
			}
		}
	}
	ev.Kahn2 = kahnOf(buildIntGraph(n, edges, r))
	enc.Encode(ev)
}

func cmdTrav(args []string) {
	fs := flag.NewFlagSet("trav", flag.ExitOnError)
	n := fs.Int("n", 3, "vertices")
	mode := fs.String("mode", "all", "all (every digraph on n vertices) | random")
	count := fs.Int("count", 500, "random graphs")
	dens := fs.Float64("density", 0.3, "random edge probability")
	reps := fs.Int("reps", 1, "repetitions per graph")
	seed := fs.Int64("seed", 1, "seed")
	out := fs.String("out", "-", "trace output")
	unit := fs.Int("unit", 1, "every weight is multiplied by this unit in the real graph; the trace is written in units")
	fs.Parse(args)
	travUnit = *unit
	r := rand.New(rand.NewSource(*seed))
	f, err := os.Create(*out)
	if err != nil {
		die("%v", err)
	}
	defer f.Close()
	bw := bufio.NewWriterSize(f, 1<<20)
	defer bw.Flush()
	enc := json.NewEncoder(bw)
	runs := 0
	mk := func(mask uint64, acyclicOnly bool) [][]int {
		edges := [][]int{}
		for a := 0; a < *n; a++ {
			for b := 0; b < *n; b++ {
				if mask&(1<<uint(a**n+b)) != 0 {
					edges = append(edges, []int{a + 1, b + 1, r.Intn(4)})
				}
			}
		}
		return edges
	}
	if *mode == "all" {
		for mask := uint64(0); mask < 1<<uint(*n**n); mask++ {
			for k := 0; k < *reps; k++ {
				runTrav(enc, *n, mk(mask, false), r, *n <= 3)
				runs++
			}
		}
	} else {
		for c := 0; c < *count; c++ {
			var mask uint64
			dag := r.Intn(2) == 0 // half of the random graphs are DAGs (forward edges of a random order)
			perm := r.Perm(*n)
			for a := 0; a < *n; a++ {
				for b := 0; b < *n; b++ {
					if r.Float64() < *dens && (!dag || perm[a] < perm[b]) {
						mask |= 1 << uint(a**n+b)
					}
				}
			}
			for k := 0; k < *reps; k++ {
				runTrav(enc, *n, mk(mask, false), r, *n <= 3)
				runs++
			}
		}
	}
	fmt.Fprintf(os.Stderr, "drive trav: graphs=%d\n", runs)
}
