// Package findings holds one minimal reproduction per genuine defect found in
// the pinned tree (see /verif/known_findings.json).  Every test fails on the
// pinned tree and passes once the corresponding "fix:" commit is applied.
// They are demonstrations only; the verdicts of the checks come from TLC.
package findings

import (
	"errors"
	"fmt"
	"reflect"
	"runtime/debug"
	"sync"
	"testing"
	"time"

	am "github.com/hashicorp/go-argmapper"
	"github.com/hashicorp/go-argmapper/internal/graph"
	"github.com/hashicorp/go-hclog"
)

func init() { hclog.L().SetLevel(hclog.Error) }

type T1 struct{ ID int }
type T2 struct{ ID int }
type T3 struct{ ID int }
type T4 struct{ ID int }

func noPanic(t *testing.T, what string, f func()) {
	t.Helper()
	defer func() {
		if r := recover(); r != nil {
			t.Fatalf("%s panicked: %v", what, r)
		}
	}()
	f()
}

// F1 (C01): a parameter named "a" receives a supplied value named "b".
func TestF1_NameMismatchInjected(t *testing.T) {
	f := am.MustFunc(am.NewFunc(func(in struct {
		am.Struct
		A T1
	}) int {
		return in.A.ID
	}))
	res := f.Call(am.NamedSubtype("b", T1{7}, "s"))
	if res.Err() == nil {
		t.Fatalf("parameter a:T1 was satisfied by b:T1:s (got token %v)", res.Out(0))
	}
}

// F2 (C05, C06): type-only parameter with subtype, satisfiable from Typed(T), panics
// "didn't reach a final value" when a same-typed named vertex with that subtype exists.
func TestF2_FinalValuePanic(t *testing.T) {
	f := am.MustFunc(am.NewFunc(func(in struct {
		am.Struct
		X T1 `argmapper:",typeOnly,subtype=t"`
	}) int {
		return in.X.ID
	}))
	conv := func(in struct {
		am.Struct
		B T1 `argmapper:"b,subtype=t"`
	}) T2 {
		return T2{in.B.ID}
	}
	for i := 0; i < 200; i++ {
		noPanic(t, "Call", func() {
			res := f.Call(am.Typed(T1{5}), am.Converter(conv))
			if err := res.Err(); err != nil {
				t.Fatalf("derivable call refused: %v", err)
			}
		})
	}
}

// F3 (C02, C06): two multi-input converters needing each other's output overflow the stack.
func TestF3_MutualCycleOverflow(t *testing.T) {
	debug.SetMaxStack(32 << 20)
	f := am.MustFunc(am.NewFunc(func(T1) int { return 0 }))
	c0 := func(T2, T4) T1 { return T1{} }
	c1 := func(T1, T4) T2 { return T2{} }
	done := make(chan error, 1)
	go func() {
		res := f.Call(am.Typed(T4{1}), am.Converter(c0, c1))
		done <- res.Err()
	}()
	err := <-done // on the pinned tree the process dies with a fatal stack overflow instead
	var ua *am.ErrArgumentUnsatisfied
	if !errors.As(err, &ua) {
		t.Fatalf("expected the unsatisfied-argument error, got %v", err)
	}
}

// F4 (C06): positional parameters repeating a type crash with index out of range.
func TestF4_RepeatedPositionalType(t *testing.T) {
	noPanic(t, "Call", func() {
		f, err := am.NewFunc(func(a, b T1) int { return a.ID + b.ID })
		if err != nil {
			t.Fatal(err)
		}
		res := f.Call(am.Typed(T1{3}))
		if err := res.Err(); err != nil {
			t.Fatal(err)
		}
		if res.Out(0).(int) != 6 {
			t.Fatalf("got %v", res.Out(0))
		}
	})
}

// F5 (C06): a generator reporting an error, a nil converter and a nil function panic.
func TestF5_MalformedOptionsPanic(t *testing.T) {
	f := am.MustFunc(am.NewFunc(func(T1) int { return 0 }))
	noPanic(t, "generator error", func() {
		res := f.Call(am.Typed(T1{1}), am.ConverterGen(func(am.Value) (*am.Func, error) {
			return nil, fmt.Errorf("no")
		}))
		if res.Err() == nil {
			t.Fatalf("generator error was swallowed")
		}
	})
	noPanic(t, "Converter(nil)", func() {
		res := f.Call(am.Typed(T1{1}), am.Converter(nil))
		if res.Err() == nil {
			t.Fatalf("nil converter accepted silently")
		}
	})
	noPanic(t, "NewFunc(nil)", func() {
		if _, err := am.NewFunc(nil); err == nil {
			t.Fatalf("NewFunc(nil) returned no error")
		}
	})
}

// F6 (C06, C11): a run-once converter returning a pointer struct and needed twice panics.
func TestF6_OncePointerStruct(t *testing.T) {
	type out struct {
		am.Struct
		V T2 `argmapper:",typeOnly"`
	}
	n := 0
	conv := am.MustFunc(am.NewFunc(func(T1) *out { n++; return &out{V: T2{n}} }, am.FuncOnce()))
	a := func(T2) T3 { return T3{1} }
	b := func(T2) T4 { return T4{1} }
	f := am.MustFunc(am.NewFunc(func(T3, T4) int { return 0 }))
	noPanic(t, "Call", func() {
		res := f.Call(am.Typed(T1{1}), am.ConverterFunc(conv), am.Converter(a, b))
		if err := res.Err(); err != nil {
			t.Fatal(err)
		}
	})
	if n != 1 {
		t.Fatalf("once body ran %d times", n)
	}
}

func inputTypes(f *am.Func) map[string]bool {
	m := map[string]bool{}
	for _, v := range f.Input().Values() {
		m[v.Name+":"+v.Type.Name()] = true
	}
	return m
}

// F7 (C08): a chain of two converters makes the redefined function demand the
// intermediate type although the input filter forbids it.
func TestF7_RedefineFilterViolated(t *testing.T) {
	f := am.MustFunc(am.NewFunc(func(T1) int { return 0 }))
	c32 := func(T3) T2 { return T2{} }
	c21 := func(T2) T1 { return T1{} }
	for i := 0; i < 50; i++ {
		nf, err := f.Redefine(am.Converter(c32, c21), am.FilterInput(am.FilterType(reflect.TypeOf(T3{}))))
		if err != nil {
			t.Fatal(err)
		}
		in := inputTypes(nf)
		if len(in) != 1 || !in[":T3"] {
			t.Fatalf("redefined inputs %v, want only T3", in)
		}
	}
}

// F8 (C08): a supplied type-only value is demanded again.
func TestF8_RedefineSuppliedDemanded(t *testing.T) {
	f := am.MustFunc(am.NewFunc(func(T1, T2) int { return 0 }))
	for i := 0; i < 50; i++ {
		nf, err := f.Redefine(am.Typed(T1{1}))
		if err != nil {
			t.Fatal(err)
		}
		in := inputTypes(nf)
		if in[":T1"] {
			t.Fatalf("redefined function demands the supplied T1 again: %v", in)
		}
	}
}

// F9 (C11, C12): concurrent first use of a run-once function executes it more than once.
func TestF9_OnceConcurrentFirstUse(t *testing.T) {
	for round := 0; round < 200; round++ {
		var mu sync.Mutex
		n := 0
		start := make(chan struct{})
		conv := am.MustFunc(am.NewFunc(func(T1) T2 {
			mu.Lock()
			n++
			mu.Unlock()
			<-start // hold every first execution until all goroutines had the chance to enter
			return T2{1}
		}, am.FuncOnce()))
		f := am.MustFunc(am.NewFunc(func(T2) int { return 0 }))
		var wg sync.WaitGroup
		for g := 0; g < 4; g++ {
			wg.Add(1)
			go func() {
				defer wg.Done()
				f.Call(am.Typed(T1{1}), am.ConverterFunc(conv))
			}()
		}
		// give the goroutines time to pile up, then release
		for i := 0; i < 1000; i++ {
			mu.Lock()
			k := n
			mu.Unlock()
			if k > 1 {
				break
			}
			if i > 50 && k == 1 {
				break
			}
			runtimeGosched()
		}
		close(start)
		wg.Wait()
		if n != 1 {
			t.Fatalf("round %d: once body ran %d times", round, n)
		}
	}
}

// F11 (C19): the reversed view of a zero Graph shares nothing with it.
func TestF11_ReverseZeroGraph(t *testing.T) {
	var g graph.Graph
	r := g.Reverse()
	r.Add("x")
	if len(g.Vertices()) != 1 {
		t.Fatalf("vertex added through the reversed view is not visible in the original: %v", g.Vertices())
	}
}

// F12 (C06): Redefine panics when two demanded inputs share a name.
func TestF12_RedefineDuplicateName(t *testing.T) {
	f := am.MustFunc(am.NewFunc(func(in struct {
		am.Struct
		A T1
		X T3
	}) int {
		return 0
	}))
	conv := func(in struct {
		am.Struct
		A T2
	}) struct {
		am.Struct
		X T3
	} {
		return struct {
			am.Struct
			X T3
		}{}
	}
	for i := 0; i < 50; i++ {
		noPanic(t, "Redefine", func() {
			f.Redefine(am.Converter(conv), am.FilterInput(am.FilterOr(
				am.FilterType(reflect.TypeOf(T1{})), am.FilterType(reflect.TypeOf(T2{})))))
		})
	}
}

// F13 (C06, C15): a function built with a nil input set panics when called.
func TestF13_BuildFuncNilInput(t *testing.T) {
	f, err := am.BuildFunc(nil, nil, func(in, out *am.ValueSet) error { return nil })
	if err != nil {
		t.Fatal(err)
	}
	noPanic(t, "Call", func() {
		res := f.Call()
		if err := res.Err(); err != nil {
			t.Fatal(err)
		}
	})
}

type I1 interface{ I1() }

func (T1) I1() {}

// F14 (C01): an interface-typed parameter with subtype "s" receives a value that a
// converter produced for the same interface type with subtype "t".
func TestF14_InterfaceSubtypeIgnored(t *testing.T) {
	f := am.MustFunc(am.NewFunc(func(in struct {
		am.Struct
		X I1 `argmapper:",typeOnly,subtype=s"`
	}) int {
		return in.X.(T1).ID
	}))
	prov := func() struct {
		am.Struct
		X I1 `argmapper:",typeOnly,subtype=t"`
	} {
		return struct {
			am.Struct
			X I1 `argmapper:",typeOnly,subtype=t"`
		}{X: T1{9}}
	}
	res := f.Call(am.Converter(prov))
	if res.Err() == nil {
		t.Fatalf("parameter I1:s was satisfied by an I1:t output (token %v)", res.Out(0))
	}
}

// F15 (C03): an exactly matching named input loses against a same-named conversion chain
// (negative name-affinity weights make the chain cheaper than the direct input).
func TestF15_ExactNamedInputLosesToConversion(t *testing.T) {
	f := am.MustFunc(am.NewFunc(func(in struct {
		am.Struct
		A T1
	}) int {
		return in.A.ID
	}))
	conv := func(in struct {
		am.Struct
		A T2
	}) struct {
		am.Struct
		A T1
	} {
		return struct {
			am.Struct
			A T1
		}{A: T1{99}}
	}
	for i := 0; i < 300; i++ {
		res := f.Call(am.Named("a", T1{1}), am.NamedSubtype("a", T2{5}, "s1"), am.Converter(conv))
		if err := res.Err(); err != nil {
			t.Fatal(err)
		}
		if res.Out(0).(int) != 1 {
			t.Fatalf("iteration %d: parameter a:T1 has an exactly matching input but received the converted value %v", i, res.Out(0))
		}
	}
}

// F16 (C02): a memoized run-once converter hands out its cached outputs in a later call in which
// one of its own inputs cannot be satisfied, so an unsatisfiable call succeeds.
func TestF16_MemoizedConverterMasksMissingArgument(t *testing.T) {
	conv := am.MustFunc(am.NewFunc(func(T2, T4) T1 { return T1{7} }, am.FuncOnce()))
	f := am.MustFunc(am.NewFunc(func(T1) int { return 1 }))
	// call 1: everything supplied, the converter runs and is memoized
	if res := f.Call(am.Typed(T2{1}, T4{2}), am.ConverterFunc(conv)); res.Err() != nil {
		t.Fatal(res.Err())
	}
	// call 2: T4 is not supplied, T1 cannot be derived
	res := f.Call(am.Typed(T2{1}), am.ConverterFunc(conv))
	if res.Err() == nil {
		t.Fatalf("T1 is not derivable without T4, but the call succeeded from the memoized result")
	}
}

// F17 (C05): all converters take one input and the parameter is derivable, yet the call is refused.
// The per-argument name discounts make nested shortest paths inconsistent: resolving F1's input leads
// through F2, whose input b:T2 - although H just produced it - is searched again and found through F1.
func TestF17_NestedDiscountsRefuseDerivableCall(t *testing.T) {
	type aX struct {
		am.Struct
		A T1
	}
	type bY struct {
		am.Struct
		B T2
	}
	g := func(v T3) aX { return aX{A: T1{v.ID + 10}} }
	h := func(v T4) bY { return bY{B: T2{v.ID + 20}} }
	f1 := func(in aX) bY { return bY{B: T2{in.A.ID + 100}} }
	f2 := func(in bY) aX { return aX{A: T1{in.B.ID + 200}} }
	target := am.MustFunc(am.NewFunc(func(in bY) int { return in.B.ID }))
	for i := 0; i < 100; i++ {
		res := target.Call(am.Named("b", T3{1}), am.Named("a", T4{2}), am.Converter(g, h, f1, f2))
		if err := res.Err(); err != nil {
			t.Fatalf("b:T2 is derivable through single-input converters, but the call failed: %.120s", err)
		}
	}
}

// F18 (C16): defaults given at construction through NewFuncList are dropped.
func TestF18_NewFuncListDropsOptions(t *testing.T) {
	fs, err := am.NewFuncList([]interface{}{func(in struct {
		am.Struct
		A T1
	}) int {
		return in.A.ID
	}}, am.Named("a", T1{7}))
	if err != nil {
		t.Fatal(err)
	}
	res := fs[0].Call()
	if err := res.Err(); err != nil {
		t.Fatalf("the default given at construction does not apply: %.80s", err)
	}
	if res.Out(0).(int) != 7 {
		t.Fatalf("got %v", res.Out(0))
	}
}

// F20 (C19): AddEdge to or from a vertex that is not in the graph panicked (documented: does nothing), and
// with only the target missing it had already stored the successor half of the edge.
func TestF20_AddEdgeAbsentVertex(t *testing.T) {
	var g graph.Graph
	g.Add("a")
	func() {
		defer func() {
			if p := recover(); p != nil {
				t.Errorf("AddEdge to an absent vertex panicked: %v", p)
			}
		}()
		g.AddEdge("a", "x")
		g.AddEdgeWeighted("x", "a", 2)
	}()
	if out := g.OutEdges("a"); len(out) != 0 {
		t.Fatalf("half of an edge to an absent vertex was stored: %v", out)
	}
}

// F21 (C18, C20): Dijkstra summed int weights in int32: a path of length 2^31 was reported as negative.
func TestF21_DijkstraInt32(t *testing.T) {
	var g graph.Graph
	for _, v := range []string{"s", "a", "b"} {
		g.Add(v)
	}
	g.AddEdgeWeighted("s", "a", 1<<30)
	g.AddEdgeWeighted("a", "b", 1<<30)
	dist, edgeTo := g.Dijkstra("s")
	if dist["b"] != 1<<31 {
		t.Fatalf("distance of b: %d, want %d", dist["b"], 1<<31)
	}
	if edgeTo["b"] != "a" {
		t.Fatalf("predecessor of b: %v", edgeTo["b"])
	}
	topo, _ := g.TopoShortestPath(g.KahnSort())
	if topo["b"] != dist["b"] {
		t.Fatalf("TopoShortestPath %d and Dijkstra %d disagree", topo["b"], dist["b"])
	}
}

type f22P *f22P

// F22 (C14): NewFunc never returned for a parameter whose type is a pointer defined in terms of itself.
func TestF22_SelfReferentialPointerType(t *testing.T) {
	done := make(chan error, 1)
	go func() {
		f, err := am.NewFunc(func(f22P) {})
		if err == nil && len(f.Input().Values()) != 1 {
			err = fmt.Errorf("values: %v", f.Input().Values())
		}
		done <- err
	}()
	select {
	case err := <-done:
		if err != nil {
			t.Fatal(err)
		}
	case <-time.After(3 * time.Second):
		t.Fatal("NewFunc(func(P)) with type P *P did not return")
	}
}

// F23 (C15): NewValueSet built sets that did not contain the values they were built from.
func TestF23_NewValueSetUnrepresentable(t *testing.T) {
	it := reflect.TypeOf(0)
	// representable once the tag is quoted
	for _, st := range []string{`a"b`, `a\b`} {
		vs, err := am.NewValueSet([]am.Value{{Type: it, Subtype: st}})
		if err != nil {
			t.Fatalf("subtype %q: %v", st, err)
		}
		if v := vs.TypedSubtype(it, st); v == nil {
			t.Fatalf("subtype %q is not reported back: %v", st, vs.Values())
		}
	}
	// names that are no identifiers or do not survive upper-casing (accepted since F25 moved names into the tag)
	for _, n := range []string{"ı", "1a", "_a"} {
		vs, err := am.NewValueSet([]am.Value{{Name: n, Type: it}})
		if err != nil {
			t.Fatalf("name %q: %v", n, err)
		}
		if v := vs.Named(n); v == nil || v.Name != n {
			t.Fatalf("name %q is not reported back: %v", n, vs.Values())
		}
	}
	// not representable: an error, not a different set and not a panic
	for _, v := range []am.Value{{Type: it, Subtype: "a,b"}, {Name: "a,b", Type: it}} {
		func() {
			defer func() {
				if p := recover(); p != nil {
					t.Errorf("%v: panic %v", v, p)
				}
			}()
			vs, err := am.NewValueSet([]am.Value{v})
			if err == nil {
				t.Errorf("%q/%q accepted, reported back as %v", v.Name, v.Subtype, vs.Values())
			}
		}()
	}
}

// F24 (C01, C02, C03): vertex identity was the string name/Type.String()/subtype, so the parameter
// (a/int, int, x) and the value (a, int, int/x) were one vertex: the function ran with a value of another name.
func TestF24_VertexIdentityCollision(t *testing.T) {
	type in struct {
		am.Struct
		V int `argmapper:"a/int,subtype=x"`
	}
	called := false
	f := am.MustFunc(am.NewFunc(func(in) { called = true }))
	res := f.Call(am.NamedSubtype("a", 7, "int/x"))
	if res.Err() == nil || called {
		t.Fatalf("parameter a/int (subtype x) was satisfied by the value a (subtype int/x): err=%v called=%v", res.Err(), called)
	}
}

// F25 (C06, C08, C15): names that are no exported identifiers (fine as tag names and with Call) made Redefine
// panic in reflect.StructOf; NewValueSet refused them.
func TestF25_NamesThatAreNoIdentifiers(t *testing.T) {
	type in struct {
		am.Struct
		A int `argmapper:"a-b"`
		B int `argmapper:"_x"`
	}
	f := am.MustFunc(am.NewFunc(func(v in) int { return v.A*10 + v.B }))
	var rf *am.Func
	func() {
		defer func() {
			if p := recover(); p != nil {
				t.Fatalf("Redefine panicked: %v", p)
			}
		}()
		var err error
		rf, err = f.Redefine()
		if err != nil {
			t.Fatalf("Redefine: %v", err)
		}
	}()
	res := rf.Call(am.Named("a-b", 4), am.Named("_x", 2))
	if res.Err() != nil || res.Out(0).(int) != 42 {
		t.Fatalf("redefined call: %v %v", res.Err(), res)
	}
	vs, err := am.NewValueSet([]am.Value{{Name: "a-b", Type: reflect.TypeOf(0)}, {Name: "ſ", Type: reflect.TypeOf("")}})
	if err != nil {
		t.Fatalf("NewValueSet: %v", err)
	}
	if vs.Named("a-b") == nil || vs.Named("ſ") == nil {
		t.Fatalf("names not found: %v", vs.Values())
	}
}

// F26 (C08): an output filter given to NewFunc was ignored by Redefine.
func TestF26_OutputFilterFromNewFunc(t *testing.T) {
	f := am.MustFunc(am.NewFunc(func(int) string { return "" }, am.FilterOutput(func(am.Value) bool { return false })))
	if _, err := f.Redefine(am.Typed(1)); err == nil {
		t.Fatal("Redefine succeeded although the output filter given to NewFunc rejects every output")
	}
}

// F27 (C06): Logger(nil) and ConverterGen(nil) made the next Call panic with a nil dereference.
func TestF27_NilLoggerAndGenerator(t *testing.T) {
	defer func() {
		if p := recover(); p != nil {
			t.Fatalf("panic: %v", p)
		}
	}()
	f := am.MustFunc(am.NewFunc(func(a int) int { return a }))
	if res := f.Call(am.Typed(3), am.Logger(nil)); res.Err() != nil {
		t.Fatalf("Logger(nil): %v", res.Err())
	}
	if res := f.Call(am.Typed(3), am.ConverterGen(nil)); res.Err() != nil {
		t.Fatalf("ConverterGen(nil): %v", res.Err())
	}
}

// K1 (C07, open): a converter entered through its named input looks for its type-only input without the name
// discount: the same-named value and its competitor tie.  The test documents the behaviour and never fails.
func TestK1_MixedConverterTie(t *testing.T) {
	type tin struct {
		am.Struct
		Input string
	}
	type cin struct {
		am.Struct
		Flag bool
		N    int `argmapper:",typeOnly"`
	}
	other := 0
	for i := 0; i < 300; i++ {
		f := am.MustFunc(am.NewFunc(func(in tin) string { return in.Input }))
		res := f.Call(am.Named("input", 12), am.Named("other", 99), am.Named("flag", true),
			am.Converter(func(in cin) string { return fmt.Sprint(in.N) }))
		if res.Err() == nil && res.Out(0).(string) == "99" {
			other++
		}
	}
	t.Logf("the value named `other` was converted in %d of 300 calls (known finding K1 while > 0)", other)
}

// F28 (C14): a marker struct behind 256 pointers was accepted as the plain form (the depth was counted in a uint8).
func TestF28_PointerDepthWraps(t *testing.T) {
	type s struct {
		am.Struct
		A int
	}
	typ := reflect.TypeOf(s{})
	for i := 0; i < 256; i++ {
		typ = reflect.PtrTo(typ)
	}
	fn := reflect.MakeFunc(reflect.FuncOf([]reflect.Type{typ}, nil, false), func([]reflect.Value) []reflect.Value { return nil })
	if f, err := am.NewFunc(fn.Interface()); err == nil {
		t.Fatalf("256 levels of indirection accepted: %v", f.Input().Values())
	}
}

// F29 (C06): a nil value of a function type was accepted as a converter and the call panicked.
func TestF29_NilFunctionValue(t *testing.T) {
	var conv func(int) string
	if _, err := am.NewFunc(conv); err == nil {
		t.Fatal("NewFunc accepted a nil function value")
	}
	defer func() {
		if p := recover(); p != nil {
			t.Fatalf("panic: %v", p)
		}
	}()
	f := am.MustFunc(am.NewFunc(func(string) int { return 0 }))
	if res := f.Call(am.Typed(1), am.Converter(conv)); res.Err() == nil {
		t.Fatal("a nil function converter was accepted")
	}
}

// F30 (C06): the call graph was rendered (every value formatted with %v) on every call, whatever the log level:
// a supplied value that contains itself overflowed the stack.  Run in a child process by check C06; here the
// rendering is only shown not to happen any more at the default level by bounding the recursion with a timeout.
func TestF30_SelfContainingValue(t *testing.T) {
	type cyc map[string]interface{}
	m := cyc{}
	m["self"] = m
	f := am.MustFunc(am.NewFunc(func(a int) int { return a }))
	done := make(chan error, 1)
	go func() {
		res := f.Call(am.Typed(3), am.Typed(m), am.Logger(hclog.NewNullLogger()))
		done <- res.Err()
	}()
	select {
	case err := <-done:
		if err != nil {
			t.Fatal(err)
		}
	case <-time.After(5 * time.Second):
		t.Fatal("the call did not return")
	}
}

// F31 (C08, C16): NewFunc and Redefine kept the caller's option slice.
func TestF31_OptionSliceRetained(t *testing.T) {
	opts := []am.Arg{am.Named("a", 7)}
	f := am.MustFunc(am.NewFunc(func(in struct {
		am.Struct
		A int
	}) int {
		return in.A
	}, opts...))
	opts[0] = am.Named("a", 8) // the caller reuses its slice
	if res := f.Call(); res.Err() != nil || res.Out(0).(int) != 7 {
		t.Fatalf("default changed after NewFunc returned: %v %v", res.Err(), res)
	}
	ropts := []am.Arg{am.Named("a", 5)}
	rf, err := f.Redefine(ropts...)
	if err != nil {
		t.Fatal(err)
	}
	ropts[0] = nil
	if res := rf.Call(); res.Err() != nil || res.Out(0).(int) != 5 {
		t.Fatalf("redefined function changed after Redefine returned: %v", res.Err())
	}
}

// F32 (C08, C17): the function generated by Redefine returned zero values next to an error the original function
// itself had returned.
func TestF32_RedefinedFunctionDropsResultsNextToError(t *testing.T) {
	boom := errors.New("boom")
	f := am.MustFunc(am.NewFunc(func(a int) (int, error) { return a + 1, boom }))
	rf, err := f.Redefine()
	if err != nil {
		t.Fatal(err)
	}
	res := rf.Call(am.Typed(41))
	if res.Err() != boom {
		t.Fatalf("error: %v", res.Err())
	}
	if res.Len() != 1 || res.Out(0).(int) != 42 {
		t.Fatalf("the original returned (42, boom), the redefined function (%v, boom)", res.Out(0))
	}
}

type k2Reader interface{ Read() string }
type k2Impl struct{}

func (k2Impl) Read() string { return "x" }

// K2 (C08, open): a named interface-typed input handed on by Redefine cannot be supplied to the redefined function.
func TestK2_NamedInterfaceInputThroughRedefine(t *testing.T) {
	f := am.MustFunc(am.NewFunc(func(in struct {
		am.Struct
		R k2Reader
	}) string {
		return in.R.Read()
	}))
	rf, err := f.Redefine()
	if err != nil {
		t.Fatal(err)
	}
	res := rf.Call(am.Named("r", k2Impl{}))
	t.Logf("calling the redefined function with a value for its declared input r: err = %v (known finding K2 while non-nil)", res.Err() != nil)
}
