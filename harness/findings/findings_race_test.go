//go:build race

package findings

import (
	"sync"
	"testing"

	am "github.com/hashicorp/go-argmapper"
)

// F19 (C12): Redefine copies a shared FuncOnce converter without its lock while a concurrent Call
// memoizes the converter's result (run with -race: go test -race -run TestF19 ./findings/).
func TestF19_RedefineReadsOnceResultUnlocked(t *testing.T) {
	for round := 0; round < 300; round++ {
		conv := am.MustFunc(am.NewFunc(func(T1) T2 { return T2{1} }, am.FuncOnce()))
		f := am.MustFunc(am.NewFunc(func(T2) int { return 0 }))
		var wg sync.WaitGroup
		start := make(chan struct{})
		wg.Add(2)
		go func() { defer wg.Done(); <-start; f.Call(am.Typed(T1{1}), am.ConverterFunc(conv)) }()
		go func() { defer wg.Done(); <-start; f.Redefine(am.Typed(T1{1}), am.ConverterFunc(conv)) }()
		close(start)
		wg.Wait()
	}
}
