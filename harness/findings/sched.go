package findings

import (
	"runtime"
	"time"
)

func runtimeGosched() { runtime.Gosched(); time.Sleep(20 * time.Microsecond) }
