package scn

import (
	"fmt"
	"math/rand"
)

// Random scenario synthesis (seeded).  Profiles restrict the universe to the
// quantifier domain of a property; well-formedness (C06's domain) is always kept:
// no repeated name and no repeated type-only key within one struct-form list.

type Profile struct {
	Name   string
	Types  []string // concrete types
	Ifaces []string // interface types usable for parameters / outputs
	// IfaceTypeOnly: interface-typed parameters and results are type-only (the redefine profiles: a value handed to a
	// redefined function is passed on under its dynamic type, which a NAMED interface parameter does not accept)
	IfaceTypeOnly bool
	// OnceTarget: the target is a run-once function
	OnceTarget bool
	Names      []string
	Subs       []string
	MaxIn      int // per converter
	MaxOut     int
	MaxTIn     int // target
	MaxInputs  int
	MaxConvs   int
	Forms      []string
	FailProb   float64
	OnceProb   float64
	MultiMax   int // max number of converters with >1 input (-1 = unlimited)
	Modes      []string
	GenProb    float64
	DefProb    float64
	BadProb    float64
	DupInputs  bool // allow repeated input keys
	TargetOuts int
}

var Profiles = map[string]Profile{
	"general": {Types: []string{"T1", "T2", "T3", "T4", "U1"}, Ifaces: []string{"I1", "I1", "I12"}, Names: []string{"", "", "a", "b"}, Subs: []string{"", "", "", "", "s", "s", "t", "s=x", "S", "p%d"},
		MaxIn: 2, MaxOut: 2, MaxTIn: 3, MaxInputs: 3, MaxConvs: 4, Forms: []string{"pos", "struct", "ptr", "built"}, FailProb: 0.1, OnceProb: 0.15,
		MultiMax: -1, Modes: []string{"call"}, GenProb: 0.05, DefProb: 0.15, TargetOuts: 2},
	"nosub": {Types: []string{"T1", "T2", "T3", "T4"}, Ifaces: []string{"I1"}, Names: []string{"", "", "a", "b"}, Subs: []string{""},
		MaxIn: 2, MaxOut: 2, MaxTIn: 3, MaxInputs: 3, MaxConvs: 4, Forms: []string{"pos", "struct", "ptr", "built"}, FailProb: 0.1, OnceProb: 0.1,
		MultiMax: -1, Modes: []string{"call"}, TargetOuts: 1},
	"single": {Types: []string{"T1", "T2", "T3", "T4"}, Ifaces: []string{"I1", "I2", "I12"}, Names: []string{"", "", "a", "b"}, Subs: []string{"", "", "s", "t"},
		MaxIn: 1, MaxOut: 2, MaxTIn: 3, MaxInputs: 3, MaxConvs: 5, Forms: []string{"pos", "struct", "ptr", "built"}, FailProb: 0.05, OnceProb: 0.1,
		MultiMax: 0, Modes: []string{"call"}, TargetOuts: 1},
	"namedsingle": {Types: []string{"T1", "T2", "T3", "T4"}, Names: []string{"", "a", "a", "b", "b"}, Subs: []string{"", "", "", "s"},
		MaxIn: 1, MaxOut: 1, MaxTIn: 2, MaxInputs: 2, MaxConvs: 7, Forms: []string{"struct", "pos"}, FailProb: 0, OnceProb: 0,
		MultiMax: 0, Modes: []string{"call"}},
	"multi": {Types: []string{"T1", "T2", "T3", "T4", "T5"}, Ifaces: []string{"I1"}, Names: []string{"", "", "", "a"}, Subs: []string{"", "", "", "s"},
		MaxIn: 3, MaxOut: 2, MaxTIn: 2, MaxInputs: 3, MaxConvs: 4, Forms: []string{"pos", "struct", "ptr", "built"}, FailProb: 0.05, OnceProb: 0.1,
		MultiMax: -1, Modes: []string{"call"}, TargetOuts: 1},
	"gens": {Types: []string{"T1", "T2", "T3", "T4"}, Ifaces: []string{"I1"}, Names: []string{"", "", "a"}, Subs: []string{"", "", "s"},
		MaxIn: 1, MaxOut: 2, MaxTIn: 2, MaxInputs: 3, MaxConvs: 3, Forms: []string{"pos", "struct", "ptr", "built"}, FailProb: 0.05, OnceProb: 0.1,
		MultiMax: -1, Modes: []string{"call"}, GenProb: 0.9, TargetOuts: 1},
	"fail": {Types: []string{"T1", "T2", "T3", "T4"}, Ifaces: []string{"I1"}, Names: []string{"", "", "a"}, Subs: []string{"", "", "", "s"},
		MaxIn: 2, MaxOut: 2, MaxTIn: 2, MaxInputs: 2, MaxConvs: 4, Forms: []string{"pos", "struct", "ptr", "built"}, FailProb: 0.4, OnceProb: 0.15,
		MultiMax: -1, Modes: []string{"call"}, TargetOuts: 1},
	"redef": {Types: []string{"T1", "T2", "T3", "T4", "U1", "P1"}, Ifaces: []string{"I1", "I2"}, IfaceTypeOnly: true, Names: []string{"", "", "", "a", "a", "b", "x-y"}, Subs: []string{""},
		MaxIn: 1, MaxOut: 1, MaxTIn: 2, MaxInputs: 2, MaxConvs: 4, Forms: []string{"pos", "struct", "ptr"}, FailProb: 0, OnceProb: 0.1,
		MultiMax: 0, Modes: []string{"redefine"}, TargetOuts: 2, DefProb: 0.25},
	"redefgen": {Types: []string{"T1", "T2", "T3", "T4"}, Names: []string{"", "", "", "a", "b"}, Subs: []string{""},
		MaxIn: 1, MaxOut: 1, MaxTIn: 2, MaxInputs: 2, MaxConvs: 2, Forms: []string{"pos", "struct", "ptr", "built"}, FailProb: 0.05, OnceProb: 0.3,
		MultiMax: 0, Modes: []string{"redefine"}, TargetOuts: 1, GenProb: 0.9},
	"redefsub": {Types: []string{"T1", "T2"}, Names: []string{"a", "a", "a", ""}, Subs: []string{"", "", "x"},
		MaxIn: 1, MaxOut: 1, MaxTIn: 1, MaxInputs: 2, MaxConvs: 2, Forms: []string{"pos", "struct", "ptr", "built"}, FailProb: 0, OnceProb: 0.4,
		MultiMax: 0, Modes: []string{"redefine"}, TargetOuts: 1},
	"onceredef": {Types: []string{"T1", "T2", "T3"}, Names: []string{"", "", "a"}, Subs: []string{""},
		MaxIn: 1, MaxOut: 1, MaxTIn: 2, MaxInputs: 2, MaxConvs: 2, Forms: []string{"pos", "struct", "ptr"}, FailProb: 0, OnceProb: 0.3,
		MultiMax: 0, Modes: []string{"redefine"}, TargetOuts: 1, OnceTarget: true},
	"redeffail": {Types: []string{"T1", "T2", "T3", "T4"}, Names: []string{"", "", "a", "b"}, Subs: []string{""},
		MaxIn: 1, MaxOut: 1, MaxTIn: 2, MaxInputs: 2, MaxConvs: 4, Forms: []string{"pos", "struct", "ptr"}, FailProb: 0.3, OnceProb: 0.1,
		MultiMax: 0, Modes: []string{"redefine"}, TargetOuts: 2},
	"convert": {Types: []string{"T1", "T2", "T3", "T4"}, Ifaces: []string{"I1", "I2"}, Names: []string{"", "", "a", "b"}, Subs: []string{"", "", "s"},
		MaxIn: 2, MaxOut: 2, MaxTIn: 1, MaxInputs: 3, MaxConvs: 4, Forms: []string{"pos", "struct", "ptr", "built"}, FailProb: 0.1, OnceProb: 0.1,
		MultiMax: -1, Modes: []string{"convert"}},
	"convcall": {Types: []string{"T1", "T2", "T3", "T4"}, Ifaces: []string{"I1", "I2"}, Names: []string{"", "", "a", "b"}, Subs: []string{"", "", "s"},
		MaxIn: 2, MaxOut: 2, MaxTIn: 1, MaxInputs: 3, MaxConvs: 4, Forms: []string{"pos", "struct", "ptr", "built"}, FailProb: 0.1, OnceProb: 0.1,
		MultiMax: -1, Modes: []string{"convcall"}, BadProb: 0.08},
	"convgens": {Types: []string{"T1", "T2", "T3", "T4"}, Ifaces: []string{"I1"}, Names: []string{"", "", "a"}, Subs: []string{"", "", "s"},
		MaxIn: 1, MaxOut: 2, MaxTIn: 1, MaxInputs: 3, MaxConvs: 3, Forms: []string{"pos", "struct", "ptr", "built"}, FailProb: 0.05, OnceProb: 0.1,
		MultiMax: -1, Modes: []string{"convcall"}, GenProb: 0.9},
	"conc": {Types: []string{"T1", "T2", "T3", "T4"}, Ifaces: []string{"I1"}, Names: []string{"", "", "a", "b"}, Subs: []string{"", "s", "t"},
		MaxIn: 2, MaxOut: 2, MaxTIn: 3, MaxInputs: 3, MaxConvs: 4, Forms: []string{"pos", "struct", "ptr"}, FailProb: 0.1, OnceProb: 0.4,
		MultiMax: -1, Modes: []string{"call"}, TargetOuts: 1, DefProb: 0.5},
	"oncey": {Types: []string{"T1", "T2", "T3", "T4"}, Ifaces: []string{"I1"}, Names: []string{"", "", "", "a"}, Subs: []string{"", "", "", "s"},
		MaxIn: 1, MaxOut: 2, MaxTIn: 3, MaxInputs: 2, MaxConvs: 5, Forms: []string{"pos", "struct", "ptr", "ptr", "built"}, FailProb: 0.1, OnceProb: 0.6,
		MultiMax: 1, Modes: []string{"call"}, TargetOuts: 1},
	"built": {Types: []string{"T1", "T2", "T3", "T4"}, Ifaces: []string{"I1"}, Names: []string{"", "", "", "a", "a", "b", "x-y"}, Subs: []string{"", "", "s"},
		MaxIn: 2, MaxOut: 2, MaxTIn: 3, MaxInputs: 3, MaxConvs: 4, Forms: []string{"built"}, FailProb: 0.15, OnceProb: 0.15,
		MultiMax: -1, Modes: []string{"call", "call", "call", "redefine"}, TargetOuts: 2},
	"wild": {Types: []string{"T1", "T2", "T3", "T4", "T5", "U1", "P1"}, Ifaces: []string{"I1", "I2", "I12"}, Names: []string{"", "", "", "a", "a", "b", "b", "c", "x-y", "_z", "xuml"}, Subs: []string{"", "", "", "", "s", "s", "t", "s=x", "S", "p%d"},
		MaxIn: 3, MaxOut: 3, MaxTIn: 3, MaxInputs: 4, MaxConvs: 5, Forms: []string{"pos", "struct", "ptr", "built"}, FailProb: 0.1, OnceProb: 0.2,
		MultiMax: -1, Modes: []string{"call", "call", "convert", "redefine"}, GenProb: 0.15, DefProb: 0.2, BadProb: 0.1, DupInputs: true, TargetOuts: 2},
}

func pick(r *rand.Rand, xs []string) string { return xs[r.Intn(len(xs))] }

func (p Profile) label(r *rand.Rand, allowIface bool) Label {
	ts := p.Types
	iface := allowIface && len(p.Ifaces) > 0 && r.Intn(p.ifaceOdds()) == 0
	if iface {
		ts = p.Ifaces
	}
	l := Label{Name: pick(r, p.Names), Type: pick(r, ts), Sub: pick(r, p.Subs)}
	if iface && p.IfaceTypeOnly {
		l.Name = ""
	}
	return l
}

func (p Profile) ifaceOdds() int {
	if p.IfaceTypeOnly {
		return 3
	}
	return 6
}

// dedupe keeps C06's well-formedness: no repeated name, no repeated type-only key.
// For parameter lists (bySub) two type-only values of one type are told apart by their subtype - the use
// case subtypes exist for; result lists are mapped back by type alone, so there the type is the key.
func dedupe(ls []Label, bySub bool) []Label {
	seenN := map[string]bool{}
	seenT := map[string]bool{}
	out := []Label{}
	for _, l := range ls {
		if l.Name != "" {
			if seenN[l.Name] {
				continue
			}
			seenN[l.Name] = true
		} else {
			k := l.Type
			if bySub {
				k += "/" + l.Sub
			}
			if seenT[k] {
				continue
			}
			seenT[k] = true
		}
		out = append(out, l)
	}
	return out
}

// same named types under one name must not clash inside one function: one name = one label
func (p Profile) fn(r *rand.Rand, maxIn, maxOut int, target bool) FuncSpec {
	f := FuncSpec{Form: pick(r, p.Forms), HasErr: r.Intn(2) == 0}
	nin := r.Intn(maxIn + 1)
	for i := 0; i < nin; i++ {
		f.In = append(f.In, p.label(r, true))
	}
	nout := 0
	if maxOut > 0 {
		nout = r.Intn(maxOut + 1)
	}
	if !target && nout == 0 && r.Intn(8) != 0 {
		nout = 1 // (now and then a converter without results stays: useless, legal, and listed by the error like any other)
	}
	for i := 0; i < nout; i++ {
		f.Out = append(f.Out, p.label(r, !target && r.Intn(3) == 0))
	}
	f.In = dedupe(f.In, true)
	// (the wild profile also draws result lists with two type-only results of one type that differ in their subtype:
	// only one of them can be delivered, but no consumer may ever be handed the other one's value)
	f.Out = dedupe(f.Out, p.Name == "wild")
	if f.Form == "pos" && plain(f.In) && len(f.In) > 0 && r.Intn(5) == 0 {
		// positional parameters may repeat a type
		f.In = append(f.In, f.In[r.Intn(len(f.In))])
	}
	if f.Form == "built" {
		f.HasErr = true
		// built functions cannot carry interface-typed markers differently; keep as is
	}
	if f.HasErr && r.Float64() < p.FailProb {
		f.Fails = true
		switch r.Intn(8) {
		case 0:
			f.FailAs = "typednil"
		case 1:
			f.FailAs = "unsat"
		case 2:
			f.FailAs = "wrapunsat"
		case 3:
			f.FailAs = "multi1"
		}
		if !target && len(f.Out) >= 2 && r.Intn(2) == 0 {
			// a converter with several results may be executed once per result that is needed: let it fail the second time only
			f.FailOn = 2
		}
	}
	if !target && r.Float64() < p.OnceProb {
		f.Once = true
	}
	if f.Form == "ptr" && !target && len(f.Out) > 0 && r.Intn(25) == 0 {
		f.NilOut = true
	}
	if f.Form == "pos" && !target && len(f.Out) == 1 && f.Out[0].Type == "PE" && plain(f.Out) && r.Intn(2) == 0 {
		f.NilOut = true
	}
	return f
}

func inputKey(l Label) string {
	switch {
	case l.Name != "" && l.Sub == "":
		return "n/" + l.Name
	case l.Name != "":
		return "ns/" + l.Name + "/" + l.Sub
	case l.Sub == "":
		return "t/" + l.Type
	default:
		return "ts/" + l.Type + "/" + l.Sub
	}
}

// Random returns one random scenario of the profile.
func (p Profile) Random(r *rand.Rand, sid int) Scenario {
	for {
		s := Scenario{Sid: sid, Mode: pick(r, p.Modes), Family: "random/" + p.Name}
		tin := p.MaxTIn
		s.Target = p.fn(r, tin, p.TargetOuts, true)
		s.Target.Once = p.OnceTarget // (only the "onceredef" profile makes the target itself a run-once function)
		s.Target.NilOut = false
		if s.Mode == "convert" || s.Mode == "convcall" {
			l := Label{Type: pick(r, append(append([]string{}, p.Types...), p.Ifaces...))}
			if s.Mode == "convcall" && r.Intn(8) == 0 {
				// corners of "for all target types": the error interface; two types printing the same name
				l.Type = pick(r, []string{"E", "PE", "L1", "L2", "PI1", "P1", "U1"})
			}
			s.Target = FuncSpec{In: []Label{l}, Out: []Label{l}, Form: "pos"}
		}
		ni := r.Intn(p.MaxInputs + 1)
		keys := map[string]bool{}
		special := map[string]string{"E": "PE", "PE": "PE", "L1": "L1", "L2": "L2", "PI1": "PI1", "P1": "P1", "U1": "U1"}[s.Target.In0Type()]
		for i := 0; i < ni; i++ {
			l := Label{Name: pick(r, p.Names), Type: pick(r, p.Types), Sub: pick(r, p.Subs)}
			if special != "" && r.Intn(2) == 0 {
				l.Type = special
			}
			if keys[inputKey(l)] && !p.DupInputs {
				continue
			}
			keys[inputKey(l)] = true
			s.Inputs = append(s.Inputs, l)
		}
		if r.Float64() < p.DefProb && len(s.Inputs) > 0 {
			s.NDef = 1 + r.Intn(len(s.Inputs))
		}
		nc := r.Intn(p.MaxConvs + 1)
		multi := 0
		for i := 0; i < nc; i++ {
			c := p.fn(r, p.MaxIn, p.MaxOut, false)
			if len(c.In) > 1 {
				multi++
				if p.MultiMax >= 0 && multi > p.MultiMax {
					c.In = c.In[:1]
				}
			}
			s.Convs = append(s.Convs, c)
		}
		if special == "PE" && len(s.Convs) > 0 {
			// a converter producing the pointer type, sometimes a nil pointer
			c := &s.Convs[r.Intn(len(s.Convs))]
			c.Out = []Label{{Type: "PE"}}
			c.Form = "pos"
			c.NilOut = r.Intn(2) == 0
		}
		if r.Float64() < p.GenProb {
			modes := []string{"conv", "conv", "conv", "nil", "err"}
			s.Gens = append(s.Gens, GenSpec{From: pick(r, p.Types), To: pick(r, p.Types), Mode: pick(r, modes)})
		}
		if r.Float64() < p.BadProb {
			s.Bad = pick(r, []string{"nilarg", "nilvalue", "nonfunc", "nilconv", "cyclic"})
		}
		if s.Mode == "redefine" {
			s.HasFilter = r.Intn(4) != 0
			for _, t := range p.Types {
				if r.Intn(2) == 0 {
					s.FilterIn = append(s.FilterIn, t)
				}
			}
			s.FilterOut = pick(r, []string{"none", "none", "accept", "reject"})
		}
		s.Normalize()
		if p.Name == "redef" && !redefDomain(s) {
			continue
		}
		return s
	}
}

// redefDomain: C08's stated domain: one type per name (across the whole scenario), no subtypes.
func redefDomain(s Scenario) bool {
	nt := map[string]string{}
	ok := true
	chk := func(ls []Label) {
		for _, l := range ls {
			if l.Sub != "" {
				ok = false
			}
			if l.Name == "" {
				continue
			}
			if t, seen := nt[l.Name]; seen && t != l.Type {
				ok = false
			}
			nt[l.Name] = l.Type
		}
	}
	chk(s.Target.In)
	chk(s.Inputs)
	for _, c := range s.Convs {
		chk(c.In)
		chk(c.Out)
		if len(c.In) > 1 {
			ok = false
		}
	}
	return ok
}

// RandomBatch generates n scenarios.
func RandomBatch(profile string, n int, seed int64, sid0 int) ([]Scenario, error) {
	p, ok := Profiles[profile]
	if !ok {
		return nil, fmt.Errorf("unknown profile %q", profile)
	}
	p.Name = profile
	r := rand.New(rand.NewSource(seed))
	out := make([]Scenario, 0, n)
	for i := 0; i < n; i++ {
		out = append(out, p.Random(r, sid0+i))
	}
	return out, nil
}
