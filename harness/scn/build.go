package scn

import (
	"fmt"
	multierror "github.com/hashicorp/go-multierror"
	"reflect"
	"regexp"
	"strings"
	"sync"

	am "github.com/hashicorp/go-argmapper"
)

// ---------------------------------------------------------------- events

type EvReset struct {
	Ev  string   `json:"ev"` // "reset"
	Sid int      `json:"sid"`
	Rep int      `json:"rep"`
	Scn Scenario `json:"scn"`
}

type EvExec struct {
	Ev    string  `json:"ev"` // "exec"
	Fn    int     `json:"fn"` // 0 target, i converter i, >len(convs) generated
	Fin   []Label `json:"fin"`
	Fout  []Label `json:"fout"`
	Args  []int   `json:"args"`
	Outs  []int   `json:"outs"`
	Fails bool    `json:"fails"`
	ErrID int     `json:"errid"`
	Phase int     `json:"phase"` // 1 = primary operation, 2 = follow-up call of a redefined function
	G     int     `json:"g"`     // goroutine / call number (0 when single)
}

type EvGen struct {
	Ev   string  `json:"ev"` // "gen": a generator produced a converter
	Fn   int     `json:"fn"`
	Fin  []Label `json:"fin"`
	Fout []Label `json:"fout"`
}

type EvRet struct {
	Ev      string  `json:"ev"`   // "ret"
	Kind    string  `json:"kind"` // ok unsat converr targeterr wrappederr othererr panic crash timeout
	ErrID   int     `json:"errid"`
	Missing []Label `json:"missing"`
	EInputs []Label `json:"einputs"`
	EConvs  []int   `json:"econvs"` // indices (scenario numbering) of the converters listed by the error
	MsgOK   bool    `json:"msgok"`  // message mentions String() of every missing argument
	AsOK    bool    `json:"asok"`   // errors.As finds the dedicated type
	Len     int     `json:"len"`
	Outs    []int   `json:"outs"`
	Detail  string  `json:"detail"`
	Phase   int     `json:"phase"`
	G       int     `json:"g"`
	ValTok  int     `json:"valtok"`  // convert mode: token of the returned value
	ValType string  `json:"valtype"` // convert mode: dynamic type of the returned value
	ValNil  bool    `json:"valnil"`  // convert mode: returned interface{} is nil
	Lack    bool    `json:"lack"`    // error text says an argument could not / cannot be satisfied
	ValOK   bool    `json:"valok"`   // convert mode: the returned value is assignable to the requested type
	// a sibling function built from the same default option array (one element longer) no longer receives its own default
	SibBad bool `json:"sibbad"`
}

type EvRedef struct {
	Ev     string  `json:"ev"` // "redef"
	OK     bool    `json:"ok"`
	Inputs []Label `json:"inputs"`
	Given  []Label `json:"given"`  // label under which the harness supplied each declared input (interface types -> dynamic type)
	Given2 []Label `json:"given2"` // the same for the second and third call (another implementing type for interface inputs)
	Toks   []int   `json:"toks"`   // fresh tokens handed to the follow-up call, per declared input
	Toks3  []int   `json:"toks3"`  // fresh tokens handed to the third call (all declared inputs but the last)
	Detail string  `json:"detail"`
	Execs  int     `json:"execs"` // number of user bodies executed during Redefine
}

// ---------------------------------------------------------------- env

// FailErr is the error value returned by failing bodies; ID identifies the execution.
type FailErr struct {
	Fn int
	ID int
}

func (e *FailErr) Error() string {
	if e == nil {
		return "fail (typed nil)"
	}
	return fmt.Sprintf("fail fn=%d id=%d", e.Fn, e.ID)
}

type errInfo struct {
	id int
	fn int
}

// Env holds the recording state of one execution of one scenario.
type genEntry struct {
	f   *am.Func
	idx int
	fs  FuncSpec
}

type Env struct {
	genMu     sync.Mutex
	genCache  map[string]genEntry // converters handed out by the generators, per (generator, value)
	execCount map[int]int         // executions per function (FailOn)
	mu        sync.Mutex
	Next      int // last token handed out
	NextErr   int
	Events    []interface{}
	Phase     int
	errs      map[error]errInfo
	self      map[int]*am.Func // built functions by index (for error values that need a Func)
	Execs     int
	funcs     map[*am.Func]int // identity -> scenario index
	NConvs    int
	nextGen   int
	// ViaList: build the next function through NewFuncList instead of NewFunc
	ViaList bool
	// PhaseOf, when set, tells which phase (goroutine of a concurrent run) executes the calling body
	PhaseOf func() int
}

func (e *Env) phase() int {
	if e.PhaseOf != nil {
		if p := e.PhaseOf(); p != 0 {
			return p
		}
	}
	return e.Phase
}

// TokOffset separates the token spaces of the two environments of a convert/call pair.
const TokOffset = 1000

func NewEnv(nconvs int) *Env {
	return &Env{Phase: 1, errs: map[error]errInfo{}, self: map[int]*am.Func{}, funcs: map[*am.Func]int{}, NConvs: nconvs, nextGen: nconvs}
}

func (e *Env) emit(ev interface{}) { e.Events = append(e.Events, ev) }

func (e *Env) tok() int { e.Next++; return e.Next }

var structMarker = reflect.TypeOf(am.Struct{})
var errT = reflect.TypeOf((*error)(nil)).Elem()

func plain(ls []Label) bool {
	for _, l := range ls {
		if l.Name != "" || l.Sub != "" {
			return false
		}
	}
	return true
}

// Names of the label universe that stand for strings TLC's output does not carry well: "xuml" is a name with a
// non-ASCII letter (case folding is not only about A-Z).
var realNames = map[string]string{"xuml": "\u00fc\u00e9"} // (no ASCII letter in either case)
var symNames = map[string]string{"\u00fc\u00e9": "xuml"}

func realName(n string) string {
	if r, ok := realNames[n]; ok {
		return r
	}
	return n
}

// SymName maps a (lower-cased) name reported by the library back to the label universe.
func SymName(n string) string {
	if r, ok := symNames[n]; ok {
		return r
	}
	return n
}

func tagOf(l Label, upper bool) reflect.StructTag {
	l.Name = realName(l.Name)
	if upper {
		l.Name = strings.ToUpper(l.Name)
	}
	tags := []string{l.Name}
	if l.Name == "" {
		tags = append(tags, "typeOnly")
	}
	if l.Sub != "" {
		tags = append(tags, "subtype="+l.Sub)
	}
	return reflect.StructTag(fmt.Sprintf(`argmapper:"%s"`, strings.Join(tags, ",")))
}

var plainName = regexp.MustCompile(`^[a-z][a-z0-9]*$`)

func structOf(ls []Label, upper bool) reflect.Type {
	sf := []reflect.StructField{{Name: "Struct", Type: structMarker, Anonymous: true}}
	for i, l := range ls {
		f := reflect.StructField{
			Name: fmt.Sprintf("F%d", i),
			Type: TypeOf(l.Type),
			Tag:  tagOf(l, upper),
		}
		if !upper && i%2 == 0 && plainName.MatchString(realName(l.Name)) {
			// the other way to name a value: the field carries the name, the tag only options (or nothing)
			f.Name = strings.ToUpper(l.Name[:1]) + l.Name[1:]
			f.Tag = ""
			if l.Sub != "" {
				f.Tag = reflect.StructTag(fmt.Sprintf(`argmapper:",subtype=%s"`, l.Sub))
			}
		}
		sf = append(sf, f)
	}
	return reflect.StructOf(sf)
}

// side returns the Go types of one side of a signature.
func side(ls []Label, form string, upper bool) (types []reflect.Type, isStruct bool, ptr bool) {
	if form == "pos" && plain(ls) {
		for _, l := range ls {
			types = append(types, TypeOf(l.Type))
		}
		return types, false, false
	}
	if len(ls) == 0 && form == "pos" {
		return nil, false, false
	}
	st := structOf(ls, upper)
	if form == "ptr" {
		return []reflect.Type{reflect.PtrTo(st)}, true, true
	}
	return []reflect.Type{st}, true, false
}

func cp(ls []Label) []Label {
	out := make([]Label, len(ls))
	copy(out, ls)
	return out
}

// Build synthesises function number idx from its description.
func (env *Env) Build(idx int, fs FuncSpec, extra ...am.Arg) (*am.Func, error) {
	// the caller's option slice is handed to NewFunc as it is (spare capacity included)
	opts := extra
	if fs.Once {
		// the function options are independent of one another: a name given before or after FuncOnce changes nothing
		switch idx % 3 {
		case 0:
			opts = append(opts, am.FuncOnce(), am.FuncName(fmt.Sprintf("fn%d", idx)))
		case 1:
			opts = append(opts, am.FuncName(fmt.Sprintf("fn%d", idx)), am.FuncOnce())
		default:
			opts = append(opts, am.FuncOnce())
		}
	}
	var f *am.Func
	var err error
	if fs.Form == "built" {
		f, err = env.buildBuilt(idx, fs, opts)
	} else {
		f, err = env.buildReflect(idx, fs, opts)
	}
	if err == nil && f != nil {
		env.funcs[f] = idx
		env.self[idx] = f
	}
	return f, err
}

// failure returns the error value of one failing execution and its identity
// (-1 for the typed nil, which has no identity of its own).
func (env *Env) failure(idx int, as string) (error, int) {
	if as == "typednil" {
		var e *FailErr
		return e, -1
	}
	env.NextErr++
	var e error
	switch as {
	case "unsat":
		e = &am.ErrArgumentUnsatisfied{Func: env.self[idx]}
	case "wrapunsat":
		e = fmt.Errorf("inner resolution failed: %w", &am.ErrArgumentUnsatisfied{Func: env.self[idx]})
	case "multi1":
		// the usual ErrorOrNil() idiom: a *multierror.Error holding exactly one error
		e = multierror.Append(nil, &FailErr{Fn: idx, ID: env.NextErr})
	default:
		e = &FailErr{Fn: idx, ID: env.NextErr}
	}
	env.errs[e] = errInfo{env.NextErr, idx}
	return e, env.NextErr
}

// failsNow: does this execution of function idx fail?  A function with FailOn = k fails on its k-th execution only.
// (called with env.mu held, once per execution)
func (env *Env) failsNow(idx int, fs FuncSpec) bool {
	if env.execCount == nil {
		env.execCount = map[int]int{}
	}
	env.execCount[idx]++
	if !fs.Fails {
		return false
	}
	return fs.FailOn == 0 || env.execCount[idx] == fs.FailOn
}

func (env *Env) buildReflect(idx int, fs FuncSpec, opts []am.Arg) (*am.Func, error) {
	inT, inStruct, inPtr := side(fs.In, fs.Form, fs.Upper)
	outT, outStruct, outPtr := side(fs.Out, fs.Form, fs.Upper)
	if len(fs.Out) == 0 {
		outT, outStruct, outPtr = nil, false, false
	}
	if len(fs.In) == 0 {
		inT, inStruct, inPtr = nil, false, false
	}
	outAll := append([]reflect.Type{}, outT...)
	if fs.HasErr {
		outAll = append(outAll, errT)
	}
	ft := reflect.FuncOf(inT, outAll, false)
	fn := reflect.MakeFunc(ft, func(args []reflect.Value) []reflect.Value {
		env.mu.Lock()
		defer env.mu.Unlock()
		env.Execs++
		ex := EvExec{Ev: "exec", Fn: idx, Fin: cp(fs.In), Fout: cp(fs.Out), Args: []int{}, Outs: []int{}, Phase: env.phase()}
		if inStruct {
			s := args[0]
			if inPtr {
				s = s.Elem()
			}
			for i := range fs.In {
				ex.Args = append(ex.Args, IDOf(s.Field(i+1)))
			}
		} else {
			for _, a := range args {
				ex.Args = append(ex.Args, IDOf(a))
			}
		}
		var res []reflect.Value
		if outStruct {
			st := outT[0]
			if outPtr {
				st = st.Elem()
			}
			if outPtr && fs.NilOut {
				res = append(res, reflect.Zero(outT[0]))
				for _, l := range fs.Out {
					env.tok() // a token number is consumed all the same, so that numbering does not depend on it
					if IsIface(l.Type) || TypeOf(l.Type).Kind() == reflect.Ptr {
						ex.Outs = append(ex.Outs, -1) // nil interface / nil pointer
					} else {
						ex.Outs = append(ex.Outs, 0) // zero struct
					}
				}
			} else {
				s := reflect.New(st)
				for i, l := range fs.Out {
					t := env.tok()
					s.Elem().Field(i + 1).Set(MkValue(l.Type, t))
					ex.Outs = append(ex.Outs, t)
				}
				if outPtr {
					res = append(res, s)
				} else {
					res = append(res, s.Elem())
				}
			}
		} else {
			for _, l := range fs.Out {
				t := env.tok()
				if fs.NilOut && l.Type == "PE" { // a nil pointer is a value of a pointer type
					res = append(res, reflect.Zero(TypeOf("PE")))
					ex.Outs = append(ex.Outs, -1)
					continue
				}
				res = append(res, MkValue(l.Type, t))
				ex.Outs = append(ex.Outs, t)
			}
		}
		if fs.HasErr {
			if env.failsNow(idx, fs) {
				e, id := env.failure(idx, fs.FailAs)
				ex.Fails, ex.ErrID = true, id
				res = append(res, reflect.ValueOf(&e).Elem())
			} else {
				res = append(res, reflect.Zero(errT))
			}
		}
		env.emit(ex)
		return res
	})
	if env.ViaList || (fs.Once && idx%2 == 1) {
		// NewFuncList "is the same as calling NewFunc for each f" (every other run-once function is built this way too)
		fl, err := am.NewFuncList([]interface{}{fn.Interface()}, opts...)
		if err != nil {
			return nil, err
		}
		return fl[0], nil
	}
	return am.NewFunc(fn.Interface(), opts...)
}

func toValues(ls []Label, upper bool) []am.Value {
	vs := make([]am.Value, len(ls))
	for i, l := range ls {
		n := realName(l.Name)
		if upper {
			n = strings.ToUpper(n)
		}
		vs[i] = am.Value{Name: n, Type: TypeOf(l.Type), Subtype: l.Sub}
	}
	return vs
}

func (env *Env) buildBuilt(idx int, fs FuncSpec, opts []am.Arg) (*am.Func, error) {
	var inSet, outSet *am.ValueSet
	var err error
	if len(fs.In) > 0 {
		if inSet, err = am.NewValueSet(toValues(fs.In, fs.Upper)); err != nil {
			return nil, err
		}
	}
	if len(fs.Out) > 0 {
		if outSet, err = am.NewValueSet(toValues(fs.Out, fs.Upper)); err != nil {
			return nil, err
		}
	}
	return am.BuildFunc(inSet, outSet, func(in, out *am.ValueSet) error {
		env.mu.Lock()
		defer env.mu.Unlock()
		env.Execs++
		failing := env.failsNow(idx, fs)
		ex := EvExec{Ev: "exec", Fn: idx, Fin: cp(fs.In), Fout: cp(fs.Out), Args: []int{}, Outs: []int{}, Phase: env.phase()}
		for _, v := range in.Values() {
			ex.Args = append(ex.Args, IDOf(v.Value))
		}
		for _, l := range fs.Out {
			t := env.tok()
			var p *am.Value
			if l.Name != "" {
				p = out.Named(strings.ToLower(realName(l.Name)))
			} else {
				// well-formed lists hold at most one type-only value per type
				p = out.Typed(TypeOf(l.Type))
			}
			if p == nil {
				panic(fmt.Sprintf("harness: built output %v not found in value set", l))
			}
			ex.Outs = append(ex.Outs, t)
			if failing && idx%2 == 1 {
				// every other failing callback fails before it has filled in its outputs, as `if err != nil { return err }` does
				continue
			}
			p.Value = MkValue(l.Type, t)
			if c, ok := ifaceImpl[l.Type]; ok {
				// as a callback using reflect.ValueOf(impl) would do it: a value of the implementing type
				p.Value = MkValue(c, t)
			}
		}
		var ret error
		if failing {
			e, id := env.failure(idx, fs.FailAs)
			ex.Fails, ex.ErrID = true, id
			ret = e
		}
		env.emit(ex)
		return ret
	}, opts...)
}

// apiArg renders a supplied value through one of the equivalent spellings of the API.
func apiArg(l Label, v interface{}, variant int) am.Arg {
	l.Name = realName(l.Name)
	// value names are matched case-insensitively: spell the name in another case now and then
	if l.Name != "" && variant >= 3 {
		rs := []rune(l.Name)
		l.Name = strings.ToUpper(string(rs[:1])) + string(rs[1:])
		if variant == 5 {
			l.Name = strings.ToUpper(l.Name)
		}
	}
	if variant == 4 && v != nil {
		// the value as a Value of the library, turned into an option by the library itself (Value.Arg)
		rv := reflect.ValueOf(v)
		val := am.Value{Name: l.Name, Type: rv.Type(), Subtype: l.Sub, Value: rv}
		return val.Arg()
	}
	switch {
	case l.Name != "" && l.Sub != "":
		return am.NamedSubtype(l.Name, v, l.Sub)
	case l.Name != "":
		if variant%2 == 0 {
			return am.Named(l.Name, v)
		}
		return am.NamedSubtype(l.Name, v, "")
	case l.Sub != "":
		if variant%2 == 0 {
			return am.TypedSubtype(v, l.Sub)
		}
		return am.NamedSubtype("", v, l.Sub)
	default:
		switch variant % 3 {
		case 0:
			if variant == 3 {
				return am.Typed(nil, v) // a nil value among several is ignored, the others count
			}
			return am.Typed(v)
		case 1:
			return am.TypedSubtype(v, "")
		}
		return am.Named("", v)
	}
}

// genFunc turns a GenSpec into a ConverterGenFunc.
func (env *Env) genFunc(g GenSpec) am.ConverterGenFunc {
	return func(v am.Value) (*am.Func, error) {
		if TypeName(v.Type) != g.From {
			return nil, nil
		}
		switch g.Mode {
		case "err":
			return nil, fmt.Errorf("generator refuses %s", v.String())
		case "nil":
			return nil, nil
		}
		// a generator is a registry: asked about the same value again (the next Call, a Redefine), it hands out the same function
		key := fmt.Sprintf("%s>%s/%s/%s", g.From, g.To, v.Name, v.Subtype)
		env.genMu.Lock()
		defer env.genMu.Unlock()
		if c, ok := env.genCache[key]; ok {
			env.emit(EvGen{Ev: "gen", Fn: c.idx, Fin: cp(c.fs.In), Fout: cp(c.fs.Out)})
			return c.f, nil
		}
		env.nextGen++
		idx := env.nextGen
		fs := FuncSpec{
			In:   []Label{{Name: SymName(v.Name), Type: g.From, Sub: v.Subtype}},
			Out:  []Label{{Name: SymName(v.Name), Type: g.To, Sub: v.Subtype}},
			Form: "built", HasErr: true,
		}
		env.emit(EvGen{Ev: "gen", Fn: idx, Fin: cp(fs.In), Fout: cp(fs.Out)})
		f, err := env.Build(idx, fs)
		if err == nil {
			if env.genCache == nil {
				env.genCache = map[string]genEntry{}
			}
			env.genCache[key] = genEntry{f: f, idx: idx, fs: fs}
		}
		return f, err
	}
}
