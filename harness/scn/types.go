// Package scn synthesises argmapper functions from scenario descriptions and
// records what the real library does with them.  It contains no oracle logic:
// it only drives the public API and writes observations (ndjson events) that
// TLC judges against the TLA+ specification.
package scn

import (
	"fmt"
	"reflect"
)

// The fixed universe of distinctly named Go types.  Every value carries a
// provenance token in ID.
type T1 struct{ ID int }
type T2 struct{ ID int }
type T3 struct{ ID int }
type T4 struct{ ID int }
type T5 struct{ ID int }
type T6 struct{ ID int }

// t7 prints in lower case ("scn.t7"): names are lower-cased by the library, so only such a type name can
// occur inside a name (labels whose name or subtype contains the printed type, see SlashFamily).
type t7 struct{ ID int }

type I1 interface{ I1() }
type I2 interface{ I2() }

// I12 is an interface that implements both I1 and I2 (only T2 implements it).
type I12 interface {
	I1
	I2
}

func (T1) I1() {}
func (T2) I1() {}
func (T2) I2() {}
func (T3) I2() {}

var typeByName = map[string]reflect.Type{
	"T1": reflect.TypeOf(T1{}), "T2": reflect.TypeOf(T2{}), "T3": reflect.TypeOf(T3{}),
	"T4": reflect.TypeOf(T4{}), "T5": reflect.TypeOf(T5{}), "T6": reflect.TypeOf(T6{}), "T7": reflect.TypeOf(t7{}),
	// P1 is the pointer type *T1: an unnamed type (Name() is empty) that implements I1 through T1's method
	"P1": reflect.TypeOf(&T1{}),
	// PI1 is the pointer type *I1 (a pointer to an interface variable): an ordinary type that nothing implements
	"PI1": reflect.TypeOf((*I1)(nil)),
	"I1":  reflect.TypeOf((*I1)(nil)).Elem(), "I2": reflect.TypeOf((*I2)(nil)).Elem(),
	"I12": reflect.TypeOf((*I12)(nil)).Elem(),
	// U1 is an unnamed struct type: every Tk is assignable to it (and back) without being
	// identical to it, so it tells type identity from mere assignability.
	"U1": reflect.TypeOf(struct{ ID int }{}),
	// E is the interface type error, PE a pointer type implementing it
	"E": reflect.TypeOf((*error)(nil)).Elem(), "PE": reflect.TypeOf(&EV{}),
	// L1 and L2 are distinct types that print the same name
	"L1": localType1(), "L2": localType2(),
}

// EV is an error value carrying a token.
type EV struct{ ID int }

func (e *EV) Error() string {
	if e == nil {
		return "EV <nil>"
	}
	return fmt.Sprintf("EV %d", e.ID)
}

func localType1() reflect.Type {
	type L struct{ ID int }
	return reflect.TypeOf(L{})
}

func localType2() reflect.Type {
	type L struct{ ID int }
	return reflect.TypeOf(L{})
}

// concrete type used when a function must produce a value of an interface type
var ifaceImpl = map[string]string{"I1": "T1", "I2": "T3", "E": "PE", "I12": "T2"}

// another implementing type per interface (later calls of a redefined function use it)
var ifaceImplAlt = map[string]string{"I1": "T2", "I2": "T2", "E": "PE", "I12": "T2"}

// MkValueAs builds a value of concrete type cname carrying token id, as an interface{}.
func MkValueAs(cname string, id int) interface{} {
	if cname == "PE" {
		return &EV{ID: id}
	}
	if cname == "P1" {
		return &T1{ID: id}
	}
	if cname == "PI1" {
		var i I1 = T1{ID: id}
		return &i
	}
	v := reflect.New(TypeOf(cname)).Elem()
	v.Field(0).SetInt(int64(id))
	return v.Interface()
}

var nameByType = func() map[reflect.Type]string {
	m := map[reflect.Type]string{}
	for k, v := range typeByName {
		m[v] = k
	}
	return m
}()

// TypeOf returns the Go type of a type name of the universe.
func TypeOf(name string) reflect.Type {
	t, ok := typeByName[name]
	if !ok {
		panic("unknown type name " + name)
	}
	return t
}

// TypeName maps a Go type back to its universe name ("?<go name>" if foreign).
func TypeName(t reflect.Type) string {
	if t == nil {
		return "?nil"
	}
	if n, ok := nameByType[t]; ok {
		return n
	}
	return "?" + t.String()
}

func IsIface(name string) bool { _, ok := ifaceImpl[name]; return ok }

// MkValue builds a value of the named type carrying token id.
func MkValue(tname string, id int) reflect.Value {
	cn := tname
	if c, ok := ifaceImpl[tname]; ok {
		cn = c
	}
	var v reflect.Value
	if cn == "PE" {
		v = reflect.ValueOf(&EV{ID: id})
	} else if cn == "P1" {
		v = reflect.ValueOf(&T1{ID: id})
	} else if cn == "PI1" {
		var i I1 = T1{ID: id}
		v = reflect.ValueOf(&i)
	} else {
		v = reflect.New(TypeOf(cn)).Elem()
		v.Field(0).SetInt(int64(id))
	}
	if cn != tname {
		iv := reflect.New(TypeOf(tname)).Elem()
		iv.Set(v)
		return iv
	}
	return v
}

// IDOf extracts the provenance token of a value (0 = zero value, -1 = nil interface).
func IDOf(v reflect.Value) int {
	if !v.IsValid() {
		return -2
	}
	for v.Kind() == reflect.Interface || v.Kind() == reflect.Ptr {
		if v.IsNil() {
			return -1
		}
		v = v.Elem()
	}
	if v.Kind() != reflect.Struct || v.NumField() == 0 || v.Field(0).Kind() != reflect.Int {
		return -3
	}
	return int(v.Field(0).Int())
}

// Label is a (name, type, subtype) triple; "" = no name / no subtype.
type Label struct {
	Name string `json:"name"`
	Type string `json:"type"`
	Sub  string `json:"sub"`
}

func (l Label) String() string { return fmt.Sprintf("%s:%s:%s", l.Name, l.Type, l.Sub) }

// FuncSpec describes one function (target or converter).
type FuncSpec struct {
	In     []Label `json:"in"`
	Out    []Label `json:"out"`
	Form   string  `json:"form"` // pos | struct | ptr | built
	HasErr bool    `json:"hasErr"`
	Fails  bool    `json:"fails"`
	Once   bool    `json:"once"`
	NilOut bool    `json:"nilOut"` // ptr form only: return a nil struct pointer
	// FailAs selects the shape of the error a failing body returns: "" / "ptr" a fresh *FailErr,
	// "typednil" a nil *FailErr inside the error interface (still a non-nil error),
	// "unsat" a fresh *argmapper.ErrArgumentUnsatisfied, "wrapunsat" an error wrapping one.
	FailAs string `json:"failAs"`
	// FailOn = k > 0: the body fails on its k-th execution only (Fails is set too: the function may fail)
	FailOn int `json:"failOn"`
	// Upper: spell the names of this function's struct tags / value sets in upper case
	Upper bool `json:"upper"`
}

// GenSpec is a converter generator: for every value vertex whose type is From
// it returns a converter From:<sub> -> To:<sub> (subtype inherited), mode
// "err" makes it report an error, "nil" makes it return no converter.
type GenSpec struct {
	From string `json:"from"`
	To   string `json:"to"`
	Mode string `json:"mode"` // conv | err | nil
}

// Scenario is one use of the library.
type Scenario struct {
	Sid       int        `json:"sid"`
	Mode      string     `json:"mode"` // call | convert | redefine
	Target    FuncSpec   `json:"target"`
	Inputs    []Label    `json:"inputs"`
	NDef      int        `json:"ndef"` // the first NDef inputs are NewFunc defaults of the target
	// AllCtor: everything the call needs (values and converters) is given to NewFunc; the call itself, and the Redefine
	// that precedes it, have no options at all
	AllCtor bool `json:"allCtor"`
	Convs     []FuncSpec `json:"convs"`
	Gens      []GenSpec  `json:"gens"`
	HasFilter bool       `json:"hasFilter"` // redefine: FilterInput given
	FilterIn  []string   `json:"filterIn"`  // permitted types
	FilterOut string     `json:"filterOut"` // none | accept | reject
	Bad       string     `json:"bad"`       // malformed-option injection: "" | nilarg | nilvalue | nonfunc | nilconv
	Family    string     `json:"family"`
	ITok      []int      `json:"itoks"`  // token of supplied value j (filled with 1..n when absent)
	Phase0    int        `json:"phase0"` // phase number of the primary operation (1 unless part of a history)
	Carry     bool       `json:"carry"`  // step of a history on shared objects: earlier executions stay visible
	// NoFollowUp: redefine mode without the follow-up call of the redefined function
	NoFollowUp bool `json:"noFollowUp"`
	// TwinOf = 1: this history repeats the previous one without its Redefine steps
	TwinOf int `json:"twinOf"`
}

// In0Type is the type of the first parameter ("" if none).
func (f FuncSpec) In0Type() string {
	if len(f.In) == 0 {
		return ""
	}
	return f.In[0].Type
}

func (s *Scenario) Normalize() {
	if s.Mode == "" {
		s.Mode = "call"
	}
	if s.FilterOut == "" {
		s.FilterOut = "none"
	}
	nf := func(f *FuncSpec) {
		if f.Form == "" {
			f.Form = "struct"
		}
		if f.In == nil {
			f.In = []Label{}
		}
		if f.Out == nil {
			f.Out = []Label{}
		}
	}
	nf(&s.Target)
	for i := range s.Convs {
		nf(&s.Convs[i])
	}
	if s.Inputs == nil {
		s.Inputs = []Label{}
	}
	if s.Convs == nil {
		s.Convs = []FuncSpec{}
	}
	if s.Gens == nil {
		s.Gens = []GenSpec{}
	}
	if s.FilterIn == nil {
		s.FilterIn = []string{}
	}
	if len(s.ITok) != len(s.Inputs) || s.ITok == nil {
		s.ITok = make([]int, len(s.Inputs))
		for j := range s.ITok {
			s.ITok[j] = j + 1
		}
	}
	if s.Phase0 == 0 {
		s.Phase0 = 1
	}
}
