package scn

import (
	"errors"
	"fmt"
	"math/rand"
	"reflect"
	"strings"
	"sync"

	am "github.com/hashicorp/go-argmapper"
	"github.com/hashicorp/go-hclog"
)

func init() { hclog.L().SetLevel(hclog.Error) }

// Built holds the real objects of one scenario instance.
type Built struct {
	Env      *Env
	S        Scenario
	Target   *am.Func
	Convs    []*am.Func
	Defaults []am.Arg // default options of the target (NewFunc)
	ValArgs  []am.Arg // supplied values (call options), in scenario order after permutation
	CnvArgs  []am.Arg
	Toks     []int // token of input j
	// the filter options of a redefine scenario were given to NewFunc (as defaults) instead of to Redefine
	FiltersAtCtor bool
	Sibling       *am.Func
}

func labelOfValue(v *am.Value) Label {
	return Label{Name: SymName(v.Name), Type: TypeName(v.Type), Sub: v.Subtype}
}

// Instantiate builds the functions and option values of a scenario.  Tokens
// 1..len(inputs) are the supplied values in scenario order.
func Instantiate(s Scenario, r *rand.Rand) (b *Built, err error) {
	return instantiate(s, r, 0)
}

func instantiate(s Scenario, r *rand.Rand, tok0 int) (b *Built, err error) {
	env := NewEnv(len(s.Convs))
	env.Next = tok0
	b = &Built{Env: env, S: s}
	vals := make([]interface{}, len(s.Inputs))
	for j, l := range s.Inputs {
		t := env.tok()
		b.Toks = append(b.Toks, t)
		vals[j] = MkValue(l.Type, t).Interface()
	}
	if s.Mode == "convert" || s.Mode == "convcall" {
		s.NDef = 0 // Convert has no function to attach defaults to
	}
	if s.AllCtor {
		s.NDef = len(s.Inputs)
	}
	// the default options live in a slice with spare capacity, as a caller who built it with append would
	// pass it: the library must not write into that capacity
	defaults := make([]am.Arg, 0, 16)
	for j := 0; j < s.NDef && j < len(s.Inputs); j++ {
		defaults = append(defaults, apiArg(s.Inputs[j], vals[j], r.Intn(6)))
	}
	if s.Family == "C16" { // option-processing family: vary the case of the names on the function side too
		s.Target.Upper = r.Intn(2) == 0
		if s.Target.Upper && r.Intn(2) == 0 {
			s.Target.Form = "built"
			s.Target.HasErr = true
		}
	}
	for i, c := range s.Convs {
		cf, err := env.Build(i+1, c)
		if err != nil {
			return b, fmt.Errorf("newfunc conv %d: %w", i+1, err)
		}
		b.Convs = append(b.Convs, cf)
	}
	// converters: registered one by one or as one option, order preserved
	// (registration order matters for func-type identity; it is part of the scenario)
	if len(b.Convs) > 0 {
		if r.Intn(2) == 0 {
			cs := append([]*am.Func{}, b.Convs...)
			if r.Intn(2) == 0 { // nil entries are ignored (documented), the converters after them are not
				pos := r.Intn(len(cs) + 1)
				cs = append(cs[:pos], append([]*am.Func{nil}, cs[pos:]...)...)
			}
			b.CnvArgs = append(b.CnvArgs, am.ConverterFunc(cs...))
		} else {
			for _, c := range b.Convs {
				b.CnvArgs = append(b.CnvArgs, am.ConverterFunc(c))
			}
		}
	}
	for _, g := range s.Gens {
		b.CnvArgs = append(b.CnvArgs, am.ConverterGen(env.genFunc(g)))
	}
	// now and then the converters are given to NewFunc as well (defaults of the target) instead of to the call
	convsAtCtor := s.Mode == "call" && s.Bad == "" && !strings.HasPrefix(s.Family, "random/conc") && !strings.HasPrefix(s.Family, "C16") && r.Intn(4) == 0
	convsAtCtor = convsAtCtor || (s.AllCtor && s.Mode == "call" && s.Bad == "")
	if convsAtCtor {
		defaults = append(defaults, b.CnvArgs...)
		b.CnvArgs = nil
	}
	if s.Mode == "redefine" && r.Intn(3) == 0 {
		// the filters are options like any other: given at construction they apply to every Redefine of the function
		defaults = append(defaults, filterArgs(s)...)
		b.FiltersAtCtor = true
	}
	b.Defaults = defaults
	// every other target is constructed from a private copy of the default options that the harness overwrites as soon
	// as NewFunc has returned (the list belongs to the caller); the others share the array with a sibling function
	private := r.Intn(2) == 0 || convsAtCtor // (no sibling over a list that holds converters: it would be given them too)
	if s.Mode != "convert" && s.Mode != "convcall" && s.Bad == "" && !private {
		// a sibling function whose options are the same array, one element longer (as two functions configured from a
		// common prefix with append are): nothing done with the target may change what the sibling was given
		b.Sibling, _ = am.NewFunc(func(x sibT) int { return x.ID }, append(defaults, am.Typed(sibT{ID: sibID}))...)
	}
	if s.Mode != "convert" && s.Mode != "convcall" {
		// a target with defaults is now and then constructed through NewFuncList
		env.ViaList = s.Target.Form != "built" && len(defaults) > 0 && r.Intn(4) == 0
		if private {
			mine := append(make([]am.Arg, 0, len(defaults)), defaults...)
			b.Target, err = env.Build(0, s.Target, mine...)
			for i := range mine {
				mine[i] = nil
			}
		} else {
			b.Target, err = env.Build(0, s.Target, defaults...)
		}
		env.ViaList = false
		if err != nil {
			return b, fmt.Errorf("newfunc target: %w", err)
		}
	}
	for j := s.NDef; j < len(s.Inputs); j++ {
		b.ValArgs = append(b.ValArgs, apiArg(s.Inputs[j], vals[j], r.Intn(6)))
	}
	return b, nil
}

// Args returns the option list of one call: values and converter options are
// interleaved at random (distinct keys commute; duplicates keep their relative
// order because values keep scenario order among themselves).
func (b *Built) Args(r *rand.Rand) []am.Arg {
	var out []am.Arg
	vi, ci := 0, 0
	for vi < len(b.ValArgs) || ci < len(b.CnvArgs) {
		takeV := ci >= len(b.CnvArgs) || (vi < len(b.ValArgs) && r.Intn(2) == 0)
		if takeV {
			out = append(out, b.ValArgs[vi])
			vi++
		} else {
			out = append(out, b.CnvArgs[ci])
			ci++
		}
	}
	switch b.S.Bad {
	case "nilarg":
		pos := 0
		if len(out) > 0 {
			pos = r.Intn(len(out) + 1)
		}
		out = append(out[:pos], append([]am.Arg{nil}, out[pos:]...)...)
	case "nilvalue":
		// nil values are ignored - also when they come after a real value for the same key
		for _, l := range b.S.Inputs {
			if l.Name != "" {
				out = append(out, am.NamedSubtype(strings.ToUpper(realName(l.Name)), nil, l.Sub), am.Named(realName(l.Name), nil))
			}
		}
		out = append(out, am.Named("zz", nil), am.Typed(nil), am.NamedSubtype("zz", nil, "s"), am.TypedSubtype(nil, "s"), am.ConverterFunc(nil),
			am.Logger(nil), am.ConverterGen(nil), am.FilterInput(nil), am.FilterOutput(nil))
	case "cyclic":
		// a value that contains itself (legal Go; printing it with %v never ends): supplied, needed by nobody
		m := cyclicMap{}
		m["self"] = m
		out = append(out, am.Typed(m))
	case "typednil":
		// a nil pointer of the first parameter's (pointer) type, given last under that parameter's key
		if l := b.S.Target.In[0]; true {
			nilv := reflect.Zero(TypeOf(l.Type)).Interface()
			switch {
			case l.Name != "":
				out = append(out, am.NamedSubtype(l.Name, nilv, l.Sub))
			default:
				out = append(out, am.TypedSubtype(nilv, l.Sub))
			}
		}
	case "nonfunc":
		out = append(out, am.Converter(42))
	case "nilconv":
		if r.Intn(2) == 0 {
			out = append(out, am.Converter(nil))
		} else {
			// a nil value of a function type is no function either
			out = append(out, am.Converter((func(T1) T2)(nil)))
		}
	}
	if b.S.Mode == "redefine" && !b.FiltersAtCtor {
		out = append(out, filterArgs(b.S)...)
	}
	return out
}

// filterArgs returns the filter options of a redefine scenario.
func filterArgs(s Scenario) []am.Arg {
	var out []am.Arg
	if s.HasFilter {
		var fs []am.FilterFunc
		for _, t := range s.FilterIn {
			fs = append(fs, am.FilterType(TypeOf(t)))
		}
		out = append(out, am.FilterInput(am.FilterOr(fs...)))
	}
	switch s.FilterOut {
	case "accept":
		out = append(out, am.FilterOutput(func(am.Value) bool { return true }))
	case "reject":
		out = append(out, am.FilterOutput(func(am.Value) bool { return false }))
	}
	return out
}

func lbls(vs []*am.Value) []Label {
	out := []Label{}
	for _, v := range vs {
		out = append(out, labelOfValue(v))
	}
	return out
}

// classify turns a Result into a ret event.
func (b *Built) classify(res am.Result, phase int) EvRet {
	ret := EvRet{Ev: "ret", Missing: []Label{}, EInputs: []Label{}, EConvs: []int{}, Outs: []int{}, Phase: phase}
	err := res.Err()
	ret.Len = res.Len()
	ret.SibBad = b.sibBad()
	if err == nil {
		ret.Kind = "ok"
		ret.Outs = ResultToks(res)
		return ret
	}
	b.classifyErr(err, &ret)
	return ret
}

// ResultToks flattens the outputs of a Result into provenance tokens
// (marker structs contribute one token per field).
func ResultToks(res am.Result) []int {
	out := []int{}
	for i := 0; i < res.Len(); i++ {
		out = append(out, flatToks(reflect.ValueOf(res.Out(i)))...)
	}
	return out
}

func flatToks(v reflect.Value) []int {
	for v.IsValid() && (v.Kind() == reflect.Ptr || v.Kind() == reflect.Interface) {
		if v.IsNil() {
			return []int{-1}
		}
		v = v.Elem()
	}
	if v.IsValid() && v.Kind() == reflect.Struct && v.NumField() > 0 && v.Type().Field(0).Type == structMarker {
		out := []int{}
		for i := 1; i < v.NumField(); i++ {
			out = append(out, IDOf(v.Field(i)))
		}
		return out
	}
	return []int{IDOf(v)}
}

func (b *Built) classifyErr(err error, ret *EvRet) {
	ret.Detail = firstLine(err.Error())
	ret.Lack = strings.Contains(err.Error(), "cannot be satisfied") || strings.Contains(err.Error(), "could not be satisfied")
	if fe, ok := err.(*FailErr); ok && fe == nil {
		ret.Kind, ret.ErrID = "nilerr", -1
		return
	}
	if info, ok := b.Env.errs[err]; ok {
		ret.ErrID = info.id
		if info.fn == 0 {
			ret.Kind = "targeterr"
		} else {
			ret.Kind = "converr"
		}
		return
	}
	var fe *FailErr
	if errors.As(err, &fe) && fe != nil {
		ret.Kind = "wrappederr"
		ret.ErrID = fe.ID
		return
	}
	// an error value a body returned, but repackaged by the library (message preserved)
	for e, info := range b.Env.errs {
		if _, isFail := e.(*FailErr); !isFail && (errors.Is(err, e) || err.Error() == e.Error()) {
			ret.Kind = "wrappederr"
			ret.ErrID = info.id
			return
		}
	}
	var ua *am.ErrArgumentUnsatisfied
	if errors.As(err, &ua) {
		ret.Kind = "unsat"
		ret.AsOK = true
		ret.Missing = lbls(ua.Args)
		ret.EInputs = lbls(ua.Inputs)
		for _, c := range ua.Converters {
			if idx, ok := b.Env.funcs[c]; ok {
				ret.EConvs = append(ret.EConvs, idx)
			} else {
				ret.EConvs = append(ret.EConvs, -1)
			}
		}
		msg := err.Error()
		// the part of the message that lists what is missing (the whole message if it is laid out differently)
		if i := strings.Index(msg, "Unsatisfiable arguments"); i >= 0 {
			if j := strings.Index(msg[i:], "==> Full list of desired"); j > 0 {
				msg = msg[i : i+j]
			}
		}
		ret.MsgOK = true
		for _, a := range ua.Args {
			if !strings.Contains(msg, a.String()) {
				ret.MsgOK = false
			}
		}
		return
	}
	ret.Kind = "othererr"
}

func firstLine(s string) string {
	s = strings.TrimSpace(s)
	if i := strings.IndexByte(s, '\n'); i >= 0 {
		s = s[:i]
	}
	if len(s) > 160 {
		s = s[:160]
	}
	return s
}

func emptyRet(kind string, phase int) EvRet {
	return EvRet{Ev: "ret", Kind: kind, Missing: []Label{}, EInputs: []Label{}, EConvs: []int{}, Outs: []int{}, Phase: phase}
}

// RunOnce executes the scenario once against the real library and returns the
// recorded events (reset … ret).  Panics are recovered into kind "panic".
func RunOnce(s Scenario, rep int, r *rand.Rand) (events []interface{}) {
	s.Normalize()
	reset := EvReset{Ev: "reset", Sid: s.Sid, Rep: rep, Scn: s}
	defer func() {
		if p := recover(); p != nil { // a panic while building the functions (NewFunc, BuildFunc, NewValueSet)
			ret := emptyRet("panic", s.Phase0)
			ret.Detail = firstLine(fmt.Sprint(p))
			events = []interface{}{reset, ret}
		}
	}()
	b, err := Instantiate(s, r)
	if err != nil {
		ret := emptyRet("builderr", s.Phase0)
		ret.Detail = firstLine(err.Error())
		return []interface{}{reset, ret}
	}
	b.Execute(r)
	return append([]interface{}{reset}, b.Env.Events...)
}

// concurrentRedefined: one redefined function, called by all goroutines at once with values of their own.  The
// race detector is the only sensor of this part (nothing is recorded: the events of these calls are dropped).
func (b *Built) concurrentRedefined(g int, opts []am.Arg) {
	if b.S.Bad != "" {
		return
	}
	rf, err := b.Target.Redefine(opts...)
	if err != nil || rf == nil {
		return
	}
	keep := len(b.Env.Events)
	var wg sync.WaitGroup
	for k := 1; k <= g; k++ {
		wg.Add(1)
		go func(k int) {
			defer wg.Done()
			defer func() { recover() }()
			var args []am.Arg
			for i, v := range rf.Input().Values() {
				tn := TypeName(v.Type)
				if strings.HasPrefix(tn, "?") {
					return
				}
				val := MkValue(tn, StaleTok+100*k+i).Interface()
				if v.Name != "" {
					args = append(args, am.NamedSubtype(v.Name, val, v.Subtype))
				} else {
					args = append(args, am.TypedSubtype(val, v.Subtype))
				}
			}
			rf.Call(args...)
		}(k)
	}
	wg.Wait()
	b.Env.mu.Lock()
	b.Env.Events = b.Env.Events[:keep]
	b.Env.mu.Unlock()
}

type cyclicMap map[string]interface{}

type sibT struct{ ID int }

const sibID = 424242

// sibBad reports whether the sibling function (see instantiate) has lost its own default value.
func (b *Built) sibBad() (bad bool) {
	if b.Sibling == nil {
		return false
	}
	defer func() {
		if recover() != nil {
			bad = true
		}
	}()
	res := b.Sibling.Call()
	return res.Err() != nil || res.Len() != 1 || res.Out(0).(int) != sibID
}

// StaleTok is the first token of values that belong to ANOTHER use of the target's value sets (wrapperCall): no
// scenario supplies them, so an execution that receives one has been handed a value nobody gave to this call.
const StaleTok = 900000

// wrapperCall builds a second function over the target's own input and output sets (BuildFunc(f.Input(),
// f.Output(), cb), the documented way to wrap a function) and calls it once with values of its own.  What that
// call leaves in the shared sets must not show in the call of the target that follows.
func (b *Built) wrapperCall() {
	in, out := b.Target.Input(), b.Target.Output()
	w, err := am.BuildFunc(in, out, func(in, out *am.ValueSet) error {
		for _, v := range out.Values() {
			v.Value = reflect.Zero(v.Type)
		}
		return nil
	})
	if err != nil {
		return
	}
	var args []am.Arg
	for i, v := range in.Values() {
		tn := TypeName(v.Type)
		if strings.HasPrefix(tn, "?") {
			return
		}
		val := MkValue(tn, StaleTok+i).Interface()
		switch {
		case v.Name != "":
			args = append(args, am.NamedSubtype(v.Name, val, v.Subtype))
		default:
			args = append(args, am.TypedSubtype(val, v.Subtype))
		}
	}
	w.Call(args...)
}

// Execute performs the operation of b.S (call / convert / redefine + follow-up call) on the built
// objects and appends the observations to the environment.  A panic becomes a ret event.
func (b *Built) Execute(r *rand.Rand) {
	s := b.S
	env := b.Env
	env.Phase = s.Phase0
	defer func() {
		if p := recover(); p != nil {
			ret := emptyRet("panic", env.Phase)
			ret.Detail = firstLine(fmt.Sprint(p))
			env.emit(ret)
		}
	}()
	args := b.Args(r)
	switch s.Mode {
	case "call":
		if s.Target.Form != "built" && s.Bad == "" && r.Intn(4) == 0 {
			b.wrapperCall()
		}
		if len(args) == 0 && (s.AllCtor || r.Intn(2) == 0) {
			// everything the call needs was given to NewFunc: planning a redefinition first (without options either)
			// changes nothing for the call that follows
			b.Target.Redefine()
		}
		res := b.Target.Call(args...)
		env.emit(b.classify(res, s.Phase0))
		if s.Family == "C16reuse" && len(b.ValArgs) > 0 {
			// a later call reuses the FIRST value option of this call alone: it still carries what it was made with, and only that
			env.Phase = s.Phase0 + 1
			res2 := b.Target.Call(b.ValArgs[0])
			env.emit(b.classify(res2, s.Phase0+1))
		}
		if s.Family == "C16" && s.NDef > 0 && s.Bad == "" {
			// the same function again, now without the values given at Call: the defaults apply (and only they)
			if len(b.CnvArgs) == 0 {
				// (what an option-less Redefine prepared for itself must not be what an option-less Call then uses)
				b.Target.Redefine()
			}
			env.Phase = s.Phase0 + 1
			res2 := b.Target.Call(b.CnvArgs...)
			env.emit(b.classify(res2, s.Phase0+1))
		}
	case "convcall":
		// C10: Convert(T, args) and, on a second, freshly built and identically numbered set of objects
		// (tokens shifted by TokOffset), Call of a function func(T) T with the same args
		conv := *b
		conv.S.Mode = "convert"
		conv.Execute(r)
		twin := s
		twin.Mode = "call"
		twin.Phase0 = s.Phase0 + 1
		b2, err := instantiate(twin, r, TokOffset)
		if err != nil {
			ret := emptyRet("builderr", s.Phase0+1)
			ret.Detail = firstLine(err.Error())
			env.emit(ret)
			break
		}
		b2.Execute(r)
		env.Events = append(env.Events, b2.Env.Events...)
	case "convert":
		tt := TypeOf(s.Target.In[0].Type)
		v, err := am.Convert(tt, args...)
		ret := emptyRet("", s.Phase0)
		ret.ValNil = v == nil
		if err == nil {
			ret.Kind = "ok"
			rv := reflect.ValueOf(v)
			ret.ValTok = IDOf(rv)
			if rv.IsValid() {
				ret.ValType = TypeName(rv.Type())
				ret.ValOK = rv.Type().AssignableTo(tt)
			}
		} else {
			b.classifyErr(err, &ret)
		}
		env.emit(ret)
	case "redefine":
		before := env.Execs
		nf, err := b.Target.Redefine(args...)
		// the option list belongs to the caller: once Redefine has returned it may be reused for something else
		for i := range args {
			args[i] = nil
		}
		rd := EvRedef{Ev: "redef", OK: err == nil, Inputs: []Label{}, Given: []Label{}, Given2: []Label{}, Toks: []int{}, Toks3: []int{}, Execs: env.Execs - before}
		if err != nil {
			rd.Detail = firstLine(err.Error())
			var ua *am.ErrArgumentUnsatisfied
			if errors.As(err, &ua) {
				rd.Detail = "unsat: " + fmt.Sprint(lbls(ua.Args))
			}
			env.emit(rd)
			break
		}
		var call []am.Arg
		for _, v := range nf.Input().Values() {
			l := labelOfValue(&v)
			rd.Inputs = append(rd.Inputs, l)
			gl := l
			if c, ok := ifaceImpl[l.Type]; ok {
				gl.Type = c // the API can only take the dynamic type of a supplied value
			}
			rd.Given = append(rd.Given, gl)
			g2 := l
			if c, ok := ifaceImplAlt[l.Type]; ok {
				g2.Type = c
			}
			rd.Given2 = append(rd.Given2, g2)
			if s.NoFollowUp {
				continue // no value is handed over, so no token is consumed
			}
			t := env.tok()
			rd.Toks = append(rd.Toks, t)
			call = append(call, apiArg(l, MkValue(l.Type, t).Interface(), r.Intn(6)))
		}
		if !s.NoFollowUp && len(rd.Inputs) > 0 {
			for range rd.Inputs[:len(rd.Inputs)-1] {
				rd.Toks3 = append(rd.Toks3, env.tok())
			}
		}
		if rd.Toks3 == nil {
			rd.Toks3 = []int{}
		}
		env.emit(rd)
		if s.NoFollowUp {
			break
		}
		env.Phase = s.Phase0 + 1
		res := nf.Call(call...)
		ret := emptyRet("", s.Phase0+1)
		ret.Len = res.Len()
		ret.SibBad = b.sibBad()
		if e := res.Err(); e != nil {
			b.classifyErr(e, &ret)
			if ret.Kind == "targeterr" {
				ret.Outs = ResultToks(res) // what the function returned next to its error
			}
		} else {
			ret.Kind = "ok"
			ret.Outs = ResultToks(res)
		}
		env.emit(ret)
		// the returned function is an ordinary function: call it a second time, now with the ZERO value of
		// every declared input (token 0); nothing of the first call may linger, and a zero value is a value
		env.Phase = s.Phase0 + 2
		var call2 []am.Arg
		for i, l := range rd.Inputs {
			call2 = append(call2, apiArg(l, MkValueAs(rd.Given2[i].Type, 0), r.Intn(3)))
		}
		res2 := nf.Call(call2...)
		ret2 := emptyRet("", s.Phase0+2)
		ret2.Len = res2.Len()
		if e := res2.Err(); e != nil {
			b.classifyErr(e, &ret2)
			if ret2.Kind == "targeterr" {
				ret2.Outs = ResultToks(res2)
			}
		} else {
			ret2.Kind = "ok"
			ret2.Outs = ResultToks(res2)
		}
		env.emit(ret2)
		// third call: the last declared input is left out; whatever happens, no value of the first call may turn up
		if len(rd.Inputs) > 0 {
			env.Phase = s.Phase0 + 3
			var call3 []am.Arg
			for i, l := range rd.Inputs[:len(rd.Inputs)-1] {
				call3 = append(call3, apiArg(l, MkValueAs(rd.Given2[i].Type, rd.Toks3[i]), r.Intn(3)))
			}
			res3 := nf.Call(call3...)
			ret3 := emptyRet("", s.Phase0+3)
			if e := res3.Err(); e != nil {
				b.classifyErr(e, &ret3)
			} else {
				ret3.Kind = "ok"
				ret3.Outs = ResultToks(res3)
			}
			env.emit(ret3)
		}
		if s.Target.Once {
			// a run-once target: it has been used through the redefined function; a direct call with everything it needs
			// (the original options and the values of the first follow-up call) finds the memo - the body does not run again
			env.Phase = s.Phase0 + 4
			res4 := b.Target.Call(append(b.Args(r), call...)...)
			env.emit(b.classify(res4, s.Phase0+4))
		}
	default:
		panic("harness: unknown mode " + s.Mode)
	}
}

// ---------------------------------------------------------------- histories on shared objects

// Step is one operation of a history.
type Step struct {
	Op        string   `json:"op"`     // call | redefine | convert
	Target    int      `json:"target"` // index into the pool's targets (1-based)
	Inputs    []int    `json:"inputs"` // indices into the pool's supplied values (1-based)
	HasFilter bool     `json:"hasFilter"`
	FilterIn  []string `json:"filterIn"`
	FilterOut string   `json:"filterOut"`
	FollowUp  bool     `json:"followUp"`
}

// History is a sequence of operations on one pool of shared functions and values.
type History struct {
	Hid     int        `json:"hid"`
	Targets []FuncSpec `json:"targets"`
	Inputs  []Label    `json:"inputs"`
	Convs   []FuncSpec `json:"convs"`
	Steps   []Step     `json:"steps"`
	Family  string     `json:"family"`
	TwinOf  int        `json:"twinOf"` // hid of the history this one repeats without its Redefine steps (0 = none)
}

// RunHistory executes a history on ONE set of real objects.  Every step is reported like a
// scenario (reset event with carry = true after the first), phases 2k-1 / 2k for step k.
func RunHistory(h History, r *rand.Rand) (events []interface{}) {
	env := NewEnv(len(h.Convs))
	vals := make([]interface{}, len(h.Inputs))
	toks := make([]int, len(h.Inputs))
	for j, l := range h.Inputs {
		toks[j] = env.tok()
		vals[j] = MkValue(l.Type, toks[j]).Interface()
	}
	fail := func(err error) []interface{} {
		ret := emptyRet("builderr", 1)
		ret.Detail = firstLine(err.Error())
		return []interface{}{EvReset{Ev: "reset", Sid: h.Hid, Scn: Scenario{Sid: h.Hid, Mode: "call", Family: h.Family}}, ret}
	}
	var targets, convs []*am.Func
	for _, t := range h.Targets {
		f, err := env.Build(0, t)
		if err != nil {
			return fail(err)
		}
		targets = append(targets, f)
	}
	for i, c := range h.Convs {
		f, err := env.Build(i+1, c)
		if err != nil {
			return fail(err)
		}
		convs = append(convs, f)
	}
	first := true
	for k, st := range h.Steps {
		if st.Op == "skip" { // a Redefine step left out of a twin history; the phase numbers stay
			continue
		}
		s := Scenario{TwinOf: h.TwinOf, Sid: h.Hid, Mode: st.Op, Target: h.Targets[st.Target-1], Convs: h.Convs, Family: h.Family,
			HasFilter: st.HasFilter, FilterIn: st.FilterIn, FilterOut: st.FilterOut,
			Phase0: 2*k + 1, Carry: !first, NoFollowUp: !st.FollowUp}
		first = false
		b := &Built{Env: env, Target: targets[st.Target-1], Convs: convs}
		for _, j := range st.Inputs {
			s.Inputs = append(s.Inputs, h.Inputs[j-1])
			s.ITok = append(s.ITok, toks[j-1])
			b.ValArgs = append(b.ValArgs, apiArg(h.Inputs[j-1], vals[j-1], r.Intn(6)))
		}
		if st.Op == "convert" {
			l := h.Targets[st.Target-1].In[0]
			s.Target = FuncSpec{In: []Label{l}, Out: []Label{l}, Form: "pos"}
		}
		s.Normalize()
		b.S = s
		if len(convs) > 0 {
			b.CnvArgs = []am.Arg{am.ConverterFunc(convs...)}
		}
		env.emit(EvReset{Ev: "reset", Sid: h.Hid, Rep: k, Scn: s})
		b.Execute(r)
	}
	return env.Events
}

// ---------------------------------------------------------------- concurrent calls on shared objects

// ConcConfig says what the goroutines of a concurrent run share.
type ConcConfig struct {
	G           int  `json:"g"`
	ShareTarget bool `json:"shareTarget"`
	ShareOpts   bool `json:"shareOpts"`
	// PadDefaults: every goroutine's target is built from the default options preceded by repetitions of one value
	// option (folding makes them void) so that the list has 5 or 7 entries - lengths for which a list built with
	// append has spare capacity that concurrent calls must not write their own options into
	PadDefaults bool `json:"padDefaults"`
}

// RunConcurrent lets G goroutines perform the call of scenario s at the same time.  Converters are always
// shared (one set of *Func objects); the target and the option values are shared or per goroutine as the
// configuration says.  Goroutine k is reported as phase k of one scenario execution; gid maps the calling
// goroutine to its number (the harness's goroutine-id trick lives in the driver).
func RunConcurrent(s Scenario, c ConcConfig, r *rand.Rand, gid func() int, register func(k int)) []interface{} {
	s.Normalize()
	s.Mode = "call"
	reset := EvReset{Ev: "reset", Sid: s.Sid, Scn: s}
	b, err := Instantiate(s, r)
	if err != nil {
		ret := emptyRet("builderr", 1)
		ret.Detail = firstLine(err.Error())
		return []interface{}{reset, ret}
	}
	env := b.Env
	env.PhaseOf = gid
	vals := make([]interface{}, len(s.Inputs))
	for j, l := range s.Inputs {
		vals[j] = MkValue(l.Type, b.Toks[j]).Interface()
	}
	mkOpts := func() []am.Arg {
		var out []am.Arg
		for j, l := range s.Inputs {
			if j < s.NDef {
				continue // given as a default of the target
			}
			out = append(out, apiArg(l, vals[j], 1)) // variant 1: NamedSubtype / TypedSubtype spellings
		}
		// run-once converters as pre-built objects; the others as one raw Converter(fn, fn, ...) option or, in every
		// other scenario, as pre-built objects too (one *Func, with its value sets, used by all goroutines at once)
		var raw []interface{}
		for i, c := range b.Convs {
			if s.Convs[i].Once || s.Sid%2 == 0 {
				out = append(out, am.ConverterFunc(c))
			} else {
				raw = append(raw, c.Func())
			}
		}
		if len(raw) > 0 {
			out = append(out, am.Converter(raw...))
		}
		return out
	}
	sharedOpts := mkOpts()
	targets := make([]*am.Func, c.G+1)
	opts := make([][]am.Arg, c.G+1)
	shared := b.Target
	if c.PadDefaults && len(s.Inputs) > 0 {
		// the first input, given once more (as a default it is overridden by itself or by the call's own option)
		pad := apiArg(s.Inputs[0], vals[0], 1)
		want := 5 + 2*r.Intn(2)
		for want < len(b.Defaults)+1 {
			want += 2
		}
		var padded []am.Arg
		for len(padded)+len(b.Defaults) < want {
			padded = append(padded, pad)
		}
		padded = append(padded, b.Defaults...)
		if t, err := env.Build(0, s.Target, padded...); err == nil {
			shared = t
		}
	}
	for k := 1; k <= c.G; k++ {
		targets[k] = shared
		if !c.ShareTarget {
			// a private target built from the SAME default option slice (shared backing array)
			if targets[k], err = env.Build(0, s.Target, b.Defaults...); err != nil {
				ret := emptyRet("builderr", 1)
				return []interface{}{reset, ret}
			}
		}
		opts[k] = sharedOpts
		if !c.ShareOpts {
			opts[k] = mkOpts()
		}
	}
	rets := make([]EvRet, c.G+1)
	var wg sync.WaitGroup
	start := make(chan struct{})
	for k := 1; k <= c.G; k++ {
		wg.Add(1)
		go func(k int) {
			defer wg.Done()
			register(k)
			defer func() {
				if p := recover(); p != nil {
					rets[k] = emptyRet("panic", k)
					rets[k].Detail = firstLine(fmt.Sprint(p))
				}
			}()
			<-start
			// what callers do with a shared function besides calling it: plan a redefinition, render the error;
			// half of the goroutines plan first, so that planning overlaps with the first real executions
			redefine := func() {
				if nf, err := targets[k].Redefine(opts[k]...); err == nil {
					_ = nf.Name()
				}
			}
			if k%2 == 0 {
				redefine()
			}
			res := targets[k].Call(opts[k]...)
			if e := res.Err(); e != nil {
				_ = e.Error()
			}
			if k%2 == 1 {
				redefine()
			}
			env.mu.Lock()
			rets[k] = b.classify(res, k)
			env.mu.Unlock()
		}(k)
	}
	close(start)
	wg.Wait()
	env.PhaseOf = nil
	b.concurrentRedefined(c.G, sharedOpts)
	evs := append([]interface{}{reset}, env.Events...)
	for k := 1; k <= c.G; k++ {
		evs = append(evs, rets[k])
	}
	return evs
}
