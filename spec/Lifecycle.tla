------------------------------ MODULE Lifecycle ------------------------------
(***************************************************************************)
(* Histories of operations on SHARED objects: one pool of targets, values  *)
(* and converters (some run-once, some failing), operated on by a sequence *)
(* of Call / Convert / Redefine steps.  The module is                      *)
(*  (1) the abstract life cycle of a run-once function (memo) with the     *)
(*      properties C09 (Redefine changes nothing) and C11 (at most one     *)
(*      execution, later uses see the memo) checked on every history, and  *)
(*  (2) the enumerator of the histories: TLC explores all histories up to  *)
(*      the bound and emits each one; the harness replays it on one set of *)
(*      real objects, and ContractTrace judges every step (C01, C02, C04,  *)
(*      C06, C09, C11) plus the twin rule: the same history without its    *)
(*      Redefine steps must produce identical executions and results.      *)
(***************************************************************************)
EXTENDS Labels, Sequences, FiniteSets, SequencesExt, Json, TLC

CONSTANTS MaxLen, Size, Small      \* Small: a reduced step alphabet, so that longer histories stay enumerable

F(i, o, once, fails) == [in |-> i, out |-> o, form |-> "struct", hasErr |-> TRUE, fails |-> fails, once |-> once, nilOut |-> FALSE, failAs |-> ""]

\* ---- the pool (shape "chain"): unique derivations, so that outcomes are deterministic
Targets == << F(<<L("", "T1", "")>>, <<>>, FALSE, FALSE),
              F(<<L("", "T2", "")>>, <<>>, FALSE, FALSE),
              F(<<L("a", "T5", ""), L("", "T2", "")>>, <<>>, FALSE, FALSE),
              F(<<L("", "T2", ""), L("", "T3", "")>>, <<L("", "T6", "")>>, TRUE, FALSE),     \* a run-once TARGET (unique signature)
              \* a second run-once target: its parameter can be supplied directly (input 4) or derived through c1, c2 - a call
              \* that succeeded (and was memoized) can be followed by one whose converter fails or whose input is missing
              \* (it returns nothing but its error: there are no outputs to memoize, the execution itself is what must not repeat)
              F(<<L("z", "T1", "")>>, <<>>, TRUE, FALSE) >>
Inputs == << L("", "T3", ""), L("", "T4", ""), L("a", "T5", ""), L("", "T1", "") >>
Pools == { << F(<<L("", "T3", "")>>, <<L("", "T2", "")>>, TRUE, FALSE),                       \* c1: T3 -> T2, run once
              F(<<L("", "T2", "")>>, <<L("", "T1", "")>>, o2, f2),                            \* c2: T2 -> T1
              F(<<L("", "T2", ""), L("", "T4", "")>>, <<L("a", "T5", "")>>, TRUE, FALSE) >>   \* c3: (T2,T4) -> a:T5, run once
           : o2 \in BOOLEAN, f2 \in BOOLEAN }

InputSets == IF Small THEN {<<>>, <<1>>, <<1, 2>>, <<4>>} ELSE {<<>>, <<1>>, <<1, 2>>, <<2>>, <<1, 3>>, <<4>>}
TargetIds == IF Small THEN {1, 3, 4, 5} ELSE 1..5
Steps == { [op |-> o, target |-> t, inputs |-> i, hasFilter |-> FALSE, filterIn |-> <<>>, filterOut |-> "none", followUp |-> FALSE] :
             o \in {"call", "redefine"}, t \in TargetIds, i \in InputSets }
         \cup { x \in { [op |-> "redefine", target |-> t, inputs |-> i, hasFilter |-> TRUE, filterIn |-> <<"T3", "T4">>, filterOut |-> "none", followUp |-> FALSE] :
                  t \in 1..3, i \in {<<>>, <<2>>} } : ~Small }
         \cup { [op |-> "convert", target |-> t, inputs |-> i, hasFilter |-> FALSE, filterIn |-> <<>>, filterOut |-> "none", followUp |-> FALSE] :
                  t \in (IF Small THEN {1} ELSE 1..2), i \in {<<1>>, <<>>} }

VARIABLES pool, steps,      \* the history so far
          memo, execs       \* abstract life cycle of the run-once converters: memo[c] in {"none","done"}, execs[c]
vars == <<pool, steps, memo, execs>>

OnceConvs == {c \in DOMAIN pool : pool[c].once}
\* targeted histories of length three, part of every enumeration: the same call before and after a Redefine of that target
Sandwiches == { <<c, r, c>> : c \in {x \in Steps : x.op = "call"}, r \in {x \in Steps : x.op = "redefine"} }
SandwichesOK == { h \in Sandwiches : h[1].target = h[2].target }
Init == /\ pool \in Pools /\ steps \in {<<>>} \cup SandwichesOK
        /\ memo = [c \in 1..3 |-> "none"] /\ execs = [c \in 1..3 |-> 0]

\* a real call may need any subset of the converters; a needed run-once converter executes only if it
\* has no memo yet.  Redefine and its planning run need converters too but touch neither memo nor count.
Do(st) ==
  /\ Len(steps) < MaxLen
  /\ steps' = Append(steps, st)
  /\ IF st.op = "redefine" THEN UNCHANGED <<memo, execs>>
     ELSE \E used \in SUBSET (1..3) :
            /\ memo' = [c \in 1..3 |-> IF c \in used /\ pool[c].once THEN "done" ELSE memo[c]]
            /\ execs' = [c \in 1..3 |-> IF c \in used /\ (~pool[c].once \/ memo[c] = "none") THEN execs[c] + 1 ELSE execs[c]]
  /\ UNCHANGED pool
Next == \E st \in Steps : Do(st)
Spec == Init /\ [][Next]_vars

\* C11 on the abstract life cycle
OnceAtMostOnce == \A c \in OnceConvs : execs[c] <= 1
\* C09 on the abstract life cycle: a Redefine step changes nothing
RedefinePure == [][(Len(steps') > Len(steps) /\ steps'[Len(steps')].op = "redefine") => UNCHANGED <<memo, execs>>]_vars

\* ---- emission: every history (only the history, not the abstract state, identifies it)
HView == <<pool, steps>>
HasRedefine == \E i \in DOMAIN steps : steps[i].op = "redefine"
Hist(tw) == [hid |-> 0, targets |-> Targets, inputs |-> Inputs, convs |-> pool, family |-> "life", twinOf |-> tw,
             steps |-> IF tw = 0 THEN steps
                       ELSE [i \in DOMAIN steps |-> IF steps[i].op = "redefine" THEN [steps[i] EXCEPT !.op = "skip"] ELSE steps[i]]]
EmitHist == (Len(steps) >= MaxLen) =>
              /\ PrintT(<<"HIST", ToJson(Hist(0))>>)
              /\ (HasRedefine => PrintT(<<"HIST", ToJson(Hist(1))>>))
=============================================================================
