-------------------------------- MODULE Once --------------------------------
(***************************************************************************)
(* The run-once protocol of Func.callDirect under concurrency (C11, C12).  *)
(* G goroutines each use one shared FuncOnce function up to Uses times.    *)
(* One use = the steps the code takes, in its order:                       *)
(*   Enter  - callDirect entered, arguments complete  (hook once.enter)    *)
(*   Check  - lock acquired, memo looked up           (hook once.check)    *)
(*            hit : the memoized result is returned, lock released         *)
(*   Exec   - the body runs                           (hook once.exec)     *)
(*   Store  - the result is memoized, lock released   (hook once.store)    *)
(* (the lock is released by a deferred Unlock when callDirect returns;     *)
(* nothing observable happens between Store / a hit and that return, so    *)
(* the release is folded into those steps).                                *)
(* Bugs = {"F9"} is the code before its repair: no lock at all.            *)
(***************************************************************************)
EXTENDS Naturals, Sequences, FiniteSets, TLC, Json

CONSTANTS G, Uses, Bugs

Gs == 1..G
VARIABLES pc,      \* pc[g] in {"idle","entered","checked","execd"}
          used,    \* completed uses per goroutine
          lock,    \* goroutine holding the lock, 0 = free
          memo,    \* 0 = none, else the id of the execution whose result is memoized
          execs,   \* number of executions of the body
          mine,    \* id of the execution goroutine g performed in its current use
          got,     \* got[g] = <<execution ids observed by the completed uses of g>>
          sched    \* the observable steps so far: <<[g, ev]>>
vars == <<pc, used, lock, memo, execs, mine, got, sched>>

Init == /\ pc = [g \in Gs |-> "idle"] /\ used = [g \in Gs |-> 0] /\ lock = 0 /\ memo = 0 /\ execs = 0
        /\ mine = [g \in Gs |-> 0] /\ got = [g \in Gs |-> <<>>] /\ sched = <<>>

Locked == "F9" \notin Bugs
Note(g, ev) == sched' = Append(sched, <<g, ev>>)

Enter(g) == /\ pc[g] = "idle" /\ used[g] < Uses
            /\ pc' = [pc EXCEPT ![g] = "entered"] /\ Note(g, "enter")
            /\ UNCHANGED <<used, lock, memo, execs, mine, got>>

Check(g) == /\ pc[g] = "entered" /\ (Locked => lock = 0)
            /\ Note(g, "check")
            /\ IF memo # 0
               THEN /\ got' = [got EXCEPT ![g] = Append(@, memo)] /\ used' = [used EXCEPT ![g] = @ + 1]
                    /\ pc' = [pc EXCEPT ![g] = "idle"] /\ UNCHANGED <<lock, mine>>
               ELSE /\ pc' = [pc EXCEPT ![g] = "checked"] /\ lock' = (IF Locked THEN g ELSE lock)
                    /\ UNCHANGED <<got, used, mine>>
            /\ UNCHANGED <<memo, execs>>

Exec(g) == /\ pc[g] = "checked"
           /\ execs' = execs + 1 /\ mine' = [mine EXCEPT ![g] = execs + 1]
           /\ pc' = [pc EXCEPT ![g] = "execd"] /\ Note(g, "exec")
           /\ UNCHANGED <<used, lock, memo, got>>

Store(g) == /\ pc[g] = "execd"
            /\ memo' = mine[g] /\ got' = [got EXCEPT ![g] = Append(@, mine[g])]
            /\ used' = [used EXCEPT ![g] = @ + 1] /\ pc' = [pc EXCEPT ![g] = "idle"]
            /\ lock' = (IF Locked THEN 0 ELSE lock) /\ Note(g, "store")
            /\ UNCHANGED <<execs, mine>>

Next == \E g \in Gs : Enter(g) \/ Check(g) \/ Exec(g) \/ Store(g)
Spec == Init /\ [][Next]_vars
Finished == \A g \in Gs : used[g] = Uses /\ pc[g] = "idle"

\* C11: the body runs at most once; every use observes the result of that one execution
AtMostOnce == execs <= 1
SameResult == \A g \in Gs : \A i \in DOMAIN got[g] : got[g][i] = 1
\* C12 (protocol level): memo and the cached result are only touched under the lock
MutualExclusion == Cardinality({g \in Gs : pc[g] \in {"checked", "execd"}}) <= 1

\* every complete schedule, for replay on the real code through the gate hooks
EmitSched == Finished => PrintT(<<"SCHED", ToJson([g |-> G, uses |-> Uses, steps |-> sched])>>)
=============================================================================
