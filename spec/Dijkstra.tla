------------------------------ MODULE Dijkstra ------------------------------
(***************************************************************************)
(* internal/graph/dijkstra.go as a state machine: one step = one           *)
(* iteration of the main loop (heap.Pop of ANY minimum-distance unvisited  *)
(* vertex, then relaxation of its unvisited neighbours with strict "<").   *)
(* Distances are machine integers with the largest one as "infinite"      *)
(* (int since the repair of F21, int32 before): the addition wraps, which  *)
(* is modelled (it only ever happens between vertices that are unreachable *)
(* from the source, as long as real path lengths stay below "infinite").   *)
(* The property C18 is stated declaratively (true minimum by Bellman-Ford  *)
(* iteration, predecessor chains) and checked (1) on this model for ALL    *)
(* digraphs of the configured size and ALL tie-breaks and (2) on the       *)
(* results and pop sequences recorded from the real code                   *)
(* (DijkstraTrace.tla).                                                    *)
(***************************************************************************)
EXTENDS Integers, Sequences, FiniteSets, FiniteSetsExt, TLC

CONSTANTS N,       \* vertices are 1..N
          WSet     \* edge weights explored by the exhaustive configuration (non-negative)

V == 1..N
None == -1                     \* no edge
\* TLC's integers are 32 bit, so the largest int and the wrapping addition are modelled at a smaller
\* scale: MaxI stands for the largest int and a sum above it wraps to the bottom of the range.  The ORDER
\* of all values the algorithm compares is the same as in the code as long as real path lengths
\* stay below MaxI (wrapped values only differ by a constant offset).  Traces of graphs with huge
\* weights are written in units of a common factor of the weights (harness flag -unit).
MaxI == 1000000
Wrap(x) == IF x > MaxI THEN x - 2 * MaxI - 2 ELSE x

VARIABLES w,      \* w[u][v] : weight of edge u -> v or None
          src, dist, prev, vis
dvars == <<w, src, dist, prev, vis>>

Start(wm, s) ==
  /\ w = wm /\ src = s
  /\ dist = [v \in V |-> IF v = s THEN 0 ELSE MaxI]
  /\ prev = [v \in V |-> 0]
  /\ vis = {}

DInit == \E wm \in [V -> [V -> WSet \cup {None}]], s \in V : Start(wm, s)

IsMinUnvisited(u) == u \in V \ vis /\ \A x \in V \ vis : dist[u] <= dist[x]
Better(u, v) == v \notin vis \cup {u} /\ w[u][v] # None /\ Wrap(dist[u] + w[u][v]) < dist[v]
Pop(u) ==
  /\ IsMinUnvisited(u)
  /\ vis' = vis \cup {u}
  /\ dist' = [v \in V |-> IF Better(u, v) THEN Wrap(dist[u] + w[u][v]) ELSE dist[v]]
  /\ prev' = [v \in V |-> IF Better(u, v) THEN u ELSE prev[v]]
  /\ UNCHANGED <<w, src>>

Done == vis = V
DNext == \E u \in V : Pop(u)
DSpec == DInit /\ [][DNext]_dvars

-----------------------------------------------------------------------------
\* declarative side
RECURSIVE BF(_, _)
\* (TLCEval: force every round, a lazily evaluated function would recompute the earlier rounds at each use)
BF(d, n) == IF n = 0 THEN d
            ELSE BF(TLCEval([v \in V |-> Min({d[v]} \cup {d[u] + w[u][v] : u \in {x \in V : w[x][v] # None /\ d[x] # MaxI}})]), n - 1)
MinDist == BF([v \in V |-> IF v = src THEN 0 ELSE MaxI], N)
Reachable(v) == MinDist[v] # MaxI

\* predecessor chain from v: <<v, prev[v], prev[prev[v]], ...>> until 0 or N+1 steps
RECURSIVE Chain(_, _, _)
Chain(p, v, fuel) == IF v = 0 \/ fuel = 0 THEN <<>> ELSE <<v>> \o Chain(p, p[v], fuel - 1)
ChainOK(d, p, v) ==
  LET c == Chain(p, v, N + 1) IN
  /\ Len(c) <= N /\ c[Len(c)] = src                                     \* ends at the source
  /\ \A i \in 1..(Len(c) - 1) : w[c[i + 1]][c[i]] # None                    \* made of existing edges
  /\ d[v] = FoldSet(LAMBDA i, acc : acc + w[c[i + 1]][c[i]], 0, 1..(Len(c) - 1))   \* whose weights sum to the distance

\* C18 for a result (d, p)
Correct(d, p) ==
  LET md == TLCEval(MinDist) IN
  \A v \in V :
    IF md[v] # MaxI THEN d[v] = md[v] /\ ChainOK(d, p, v)
    ELSE \A i \in DOMAIN Chain(p, v, N + 1) : Chain(p, v, N + 1)[i] # src   \* never leads back to the source

C18Model == Done => Correct(dist, prev)
\* step-level facts the trace validation relies on
PopsAreSettled == LET md == TLCEval(MinDist) IN \A u \in vis : md[u] # MaxI => dist[u] = md[u]
=============================================================================
