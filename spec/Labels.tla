------------------------------- MODULE Labels -------------------------------
(***************************************************************************)
(* Labels (name, type, subtype) and the two matching relations that        *)
(* sandwich the library's behaviour:                                       *)
(*   MayMatch  - upper bound: the matching table stated by property C01    *)
(*   MustMatch - lower bound: what the code is measured / pinned by the    *)
(*               existing tests to satisfy directly                        *)
(* plus the least fixpoint of derivable labels under either relation.      *)
(* "" is "no name" / "no subtype".  Pure operators, no variables.          *)
(***************************************************************************)
EXTENDS Naturals, Sequences, FiniteSets

\* the harness's Go type universe (harness/scn/types.go): T1,T2 implement I1; T2,T3 implement I2
\* U1 is the unnamed type struct{ID int}: assignable from and to every Tk but identical to none
\* PE is a pointer type implementing the interface type E = error (Convert to error is a corner of C10);
\* L1 and L2 are two distinct types that PRINT the same name (declared in different scopes) - they never
\* occur together in one scenario
\* T7 is a type whose printed name is lower case ("scn.t7"), so that it can occur inside a (lower-cased) name
\* P1 is the pointer type *T1 (an unnamed type; it implements I1 through T1's value-receiver method)
\* PI1 is the pointer type *I1 (pointer to an interface variable): a type like any other, implemented by nothing
Concrete == {"T1", "T2", "T3", "T4", "T5", "T6", "T7", "U1", "P1", "PI1", "PE", "L1", "L2"}
\* I12 is an interface embedding I1 and I2 (implemented by T2 only): an interface implementing wider interfaces
Ifaces   == {"I1", "I2", "E", "I12"}
Impl     == {<<"T1", "I1">>, <<"P1", "I1">>, <<"T2", "I1">>, <<"T2", "I2">>, <<"T3", "I2">>, <<"PE", "E">>,
             <<"T2", "I12">>, <<"I12", "I1">>, <<"I12", "I2">>}

L(n, t, s) == [name |-> n, type |-> t, sub |-> s]
Ran(f) == {f[i] : i \in DOMAIN f}

MayMatch(req, prov) ==
  /\ (req.name # "" /\ prov.name # "") => req.name = prov.name
  /\ \/ req.type = prov.type /\ (req.sub = prov.sub \/ req.sub = "" \/ prov.sub = "")
     \/ <<prov.type, req.type>> \in Impl

MustMatch(req, prov) ==
  \/ /\ req.type = prov.type
     /\ CASE req.name = "" /\ req.sub = "" -> TRUE
          [] req.name = "" /\ req.sub # "" -> \/ (prov.name = "" /\ prov.sub \in {"", req.sub})
                                              \/ (prov.name # "" /\ prov.sub = req.sub)
          [] req.name # "" /\ req.sub = "" -> (prov.name = "" /\ prov.sub = "") \/ prov.name = req.name
          [] OTHER                         -> \/ (prov.name = "" /\ prov.sub = "")
                                              \/ (prov.name = req.name /\ prov.sub = req.sub)
  \/ /\ <<prov.type, req.type>> \in Impl /\ prov.name = ""    \* interfaces only from type-only providers

\* option folding (args.go): one map slot per key, later options overwrite earlier ones
Key(l) == IF l.name # "" THEN <<"n", l.name, l.sub>> ELSE <<"t", l.type, l.sub>>
FoldedIdx(inputs) == {j \in DOMAIN inputs : \A k \in DOMAIN inputs : k > j => Key(inputs[k]) # Key(inputs[j])}
Folded(inputs) == {inputs[j] : j \in FoldedIdx(inputs)}

\* least fixpoint: labels derivable from the label set A through converters cs (a sequence of
\* records with fields in, out) under matching relation M
SatBy(f, M(_, _), A) == \A j \in DOMAIN f.in : \E a \in A : M(f.in[j], a)
RECURSIVE Fix(_, _, _)
Fix(cs, M(_, _), A) ==
  LET A2 == A \cup UNION {Ran(cs[i].out) : i \in {k \in DOMAIN cs : SatBy(cs[k], M, A)}}
  IN IF A2 = A THEN A ELSE Fix(cs, M, A2)

\* converter j may feed converter i
MayFeed(cs, j, i) == \E a \in DOMAIN cs[j].out : \E b \in DOMAIN cs[i].in : MayMatch(cs[i].in[b], cs[j].out[a])
RECURSIVE ReachFrom(_, _, _)
ReachFrom(cs, S, seen) ==
  LET nxt == {i \in DOMAIN cs : \E j \in S : MayFeed(cs, j, i)} \ seen
  IN IF nxt = {} THEN seen ELSE ReachFrom(cs, nxt, seen \cup nxt)
\* no converter (transitively) may depend on its own output
Acyclic(cs) == \A i \in DOMAIN cs : i \notin ReachFrom(cs, {i}, {})
=============================================================================
