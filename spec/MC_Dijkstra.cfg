SPECIFICATION DSpec
CONSTANTS
  N = 3
  WSet = {0, 1}
INVARIANTS C18Model PopsAreSettled
CHECK_DEADLOCK FALSE
