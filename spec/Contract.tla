------------------------------ MODULE Contract ------------------------------
(***************************************************************************)
(* The contract layer: what one use of the library (Call / Convert /       *)
(* Redefine + call of the redefined function) may do and must do, in terms *)
(* of labels and provenance tokens.  The state is what an observer of the  *)
(* real code sees: the scenario, the executions of user function bodies    *)
(* (with the tokens they received and produced) and the returned results.  *)
(* Every listed resolver property is a state invariant of this module; it  *)
(* is evaluated by TLC on traces recorded from the real code               *)
(* (ContractTrace.tla) and on the behaviours of the faithful model         *)
(* (Resolver.tla, through a refinement mapping).                           *)
(***************************************************************************)
EXTENDS Labels, Integers, TLC

VARIABLES
  scn,     \* the scenario record (harness/scn/types.go: Scenario)
  gens,    \* converters produced by generators in this run: <<[fn, fin, fout]>>
  log,     \* executions of user bodies: <<[fn, fin, fout, args, outs, fails, errid, phase]>>
  rets,    \* returned results: <<[kind, errid, missing, einputs, econvs, msgok, asok, len, outs, phase, lack, ...]>>
  redef,   \* result of Redefine: [ok, inputs, toks, execs] or NoRedef
  kinds    \* success/failure classes seen so far over repetitions of this scenario

cvars == <<scn, gens, log, rets, redef, kinds>>

NoRedef == [ev |-> "none", ok |-> FALSE, inputs |-> <<>>, given |-> <<>>, given2 |-> <<>>, toks |-> <<>>, toks3 |-> <<>>, execs |-> 0, detail |-> ""]
NoScn == [sid |-> 0, mode |-> "none", target |-> [in |-> <<>>, out |-> <<>>, form |-> "struct", hasErr |-> FALSE, fails |-> FALSE, once |-> FALSE, nilOut |-> FALSE],
          inputs |-> <<>>, ndef |-> 0, convs |-> <<>>, gens |-> <<>>, hasFilter |-> FALSE, filterIn |-> <<>>, filterOut |-> "none", bad |-> "", family |-> "",
          itoks |-> <<>>, phase0 |-> 1, carry |-> FALSE, twinOf |-> 0]

-----------------------------------------------------------------------------
\* derived notions

TP == scn.target.in                                   \* parameters of the target
\* One use of the library is numbered by "phases": P0 is the phase of the primary operation of the
\* current scenario, P0 + 1 the follow-up call of a redefined function.  In a history of operations on
\* shared objects (scn.carry) the log and the results of earlier phases stay visible - memoized values
\* come from there - and every invariant judges the executions of the current phases.
P0 == scn.phase0
\* token of supplied value j (scn.itoks: 1..n for a single use; fixed per pool value in a history)
ITok(j) == scn.itoks[j]
GenConvs == [k \in DOMAIN gens |-> [in |-> gens[k].fin, out |-> gens[k].fout]]
AllConvs == [k \in 1..(Len(scn.convs) + Len(gens)) |->
               IF k <= Len(scn.convs) THEN [in |-> scn.convs[k].in, out |-> scn.convs[k].out]
               ELSE GenConvs[k - Len(scn.convs)]]
ScnConvs == [k \in DOMAIN scn.convs |-> [in |-> scn.convs[k].in, out |-> scn.convs[k].out]]

SuppliedAll == Ran(scn.inputs)
SuppliedFolded == Folded(scn.inputs)
DerivMayS == Fix(AllConvs, MayMatch, SuppliedAll)          \* upper bound of what can be derived
\* what a converter certainly offers: of several type-only results of ONE type only the last declared one (the results are
\* mapped back by type alone, func.go:graph / outputValues) - the lower bound counts only those
AdvSeq(o) == LET idx == {j \in DOMAIN o : o[j].name # "" \/ ~\E k \in DOMAIN o : k > j /\ o[k].name = "" /\ o[k].type = o[j].type}
                 Pick[S \in SUBSET DOMAIN o] == IF S = {} THEN <<>>
                                                  ELSE LET m == CHOOSE x \in S : \A y \in S : x <= y IN <<o[m]>> \o Pick[S \ {m}]
             IN Pick[idx]
ScnConvsAdv == [k \in DOMAIN scn.convs |-> [in |-> scn.convs[k].in, out |-> AdvSeq(scn.convs[k].out)]]
DerivMustS == Fix(ScnConvsAdv, MustMatch, SuppliedFolded)     \* lower bound

HasRet(p) == \E i \in DOMAIN rets : rets[i].phase = p
Ret(p) == rets[CHOOSE i \in DOMAIN rets : rets[i].phase = p]
TargetRan(p) == \E i \in DOMAIN log : log[i].phase = p /\ log[i].fn = 0

Plain == scn.bad = "" /\ scn.gens = <<>>
CallMode == scn.mode = "call"
NoErrGen == \A k \in DOMAIN scn.gens : scn.gens[k].mode # "err"

Underivable == \E j \in DOMAIN TP : ~\E a \in DerivMayS : MayMatch(TP[j], a)
TargetDerivMust == \A j \in DOMAIN TP : \E a \in DerivMustS : MustMatch(TP[j], a)
SingleIn == \A i \in DOMAIN scn.convs : Len(scn.convs[i].in) <= 1
AllConvSat == \A i \in DOMAIN ScnConvs : SatBy(ScnConvs[i], MustMatch, DerivMustS)
WellBehaved == SingleIn \/ (AllConvSat /\ Acyclic(ScnConvs))
NoFailing == ~scn.target.fails /\ \A i \in DOMAIN scn.convs : ~scn.convs[i].fails

ExactIdx(p) == {j \in FoldedIdx(scn.inputs) : scn.inputs[j] = p}
Exact == CallMode /\ scn.bad = "" /\ NoErrGen /\ \A j \in DOMAIN TP : ExactIdx(TP[j]) # {}

\* A value handed to the redefined function for declared input k carries the label the harness
\* gave it (redef.given[k]); the wrapper generated by Redefine resolves its own declared inputs
\* from those values and passes each on under the label of the declared input it filled.
Phase2Labels(t) ==
  UNION {{redef.given[k]} \cup
         {[name |-> redef.inputs[d].name, type |-> redef.given[k].type, sub |-> redef.inputs[d].sub] :
            d \in {d \in DOMAIN redef.inputs : MayMatch(redef.inputs[d], redef.given[k])}}
         : k \in {k \in DOMAIN redef.toks : redef.toks[k] = t}}

\* labels a token may legitimately carry when it is seen by execution number i of the log
\* (the call twin of a convert/call pair runs on a second set of objects whose tokens are shifted)
TokOffset == 1000
Shift(i) == IF scn.mode = "convcall" /\ log[i].phase = P0 + 1 THEN TokOffset ELSE 0
\* the second follow-up call hands over the zero value (token 0) of every declared input
Phase3Labels(t) ==
  IF t # 0 THEN {}
  ELSE UNION {{redef.given2[k]} \cup
              {[name |-> redef.inputs[d].name, type |-> redef.given2[k].type, sub |-> redef.inputs[d].sub] :
                 d \in {d \in DOMAIN redef.inputs : MayMatch(redef.inputs[d], redef.given2[k])}}
              : k \in DOMAIN redef.given2}
\* the third call hands fresh values (redef.toks3) to all declared inputs but the last
Phase4Labels(t) ==
  UNION {{redef.given2[k]} \cup
         {[name |-> redef.inputs[d].name, type |-> redef.given2[k].type, sub |-> redef.inputs[d].sub] :
            d \in {d \in DOMAIN redef.inputs : MayMatch(redef.inputs[d], redef.given2[k])}}
         : k \in {k \in DOMAIN redef.toks3 : redef.toks3[k] = t}}
TokLabels(t, i) ==
  {scn.inputs[j] : j \in {k \in DOMAIN scn.inputs : ITok(k) + Shift(i) = t}}
  \cup (IF log[i].phase = P0 + 1 /\ scn.mode = "redefine" THEN Phase2Labels(t) ELSE {})
  \cup (IF log[i].phase = P0 + 2 /\ scn.mode = "redefine" THEN Phase3Labels(t) ELSE {})
  \cup (IF log[i].phase = P0 + 3 /\ scn.mode = "redefine" THEN Phase4Labels(t) ELSE {})
  \cup UNION {{log[k].fout[j] : j \in {m \in DOMAIN log[k].outs : log[k].outs[m] = t}} : k \in 1..(i - 1)}

Class(k) == IF k \in {"ok", "targeterr"} THEN "resolved" ELSE "refused"   \* (a "nilerr" of the target cannot occur with NoFailing)

-----------------------------------------------------------------------------
\* C01  every injected value is a label- and type-correct binding, never fabricated
C01 == \A i \in {k \in DOMAIN log : log[k].phase >= P0} : LET e == log[i] IN
          /\ Len(e.args) = Len(e.fin)
          /\ \A j \in DOMAIN e.fin : \E lab \in TokLabels(e.args[j], i) : MayMatch(e.fin[j], lab)
          /\ (e.fn >= 1 /\ e.fn <= Len(scn.convs)) => (e.fin = scn.convs[e.fn].in /\ e.fout = scn.convs[e.fn].out)
          /\ (e.fn = 0) => e.fin = scn.target.in

\* C02  unsatisfiable calls are refused: error returned, target never run
C02 == (scn.mode \in {"call", "convert", "convcall"} /\ Underivable) =>
          /\ ~TargetRan(P0)
          /\ HasRet(P0) =>
               /\ Ret(P0).kind \in {"unsat", "othererr", "converr", "nilerr"}
               /\ (Plain /\ AllConvSat) => (Ret(P0).kind = "unsat" /\ Ret(P0).asok)

\* C03  exact matches win
C03 == Exact =>
          /\ \A i \in DOMAIN log : log[i].phase = P0 =>
               /\ log[i].fn = 0
               /\ \A j \in DOMAIN TP :
                    IF TP[j].name # "" THEN log[i].args[j] \in {ITok(k) : k \in ExactIdx(TP[j])}
                    ELSE \E k \in DOMAIN scn.inputs : ITok(k) = log[i].args[j] /\ scn.inputs[k].type = TP[j].type
          /\ HasRet(P0) => (Ret(P0).kind \in {"ok", "targeterr", "nilerr"} /\ TargetRan(P0))

\* C04  a failing converter aborts the call and its error is returned verbatim
C04 == /\ \A i \in DOMAIN log : log[i].fails =>
            /\ \A k \in DOMAIN log : k > i => log[k].phase # log[i].phase
            \* what a failing execution returned besides its error is never used - not in this call and not in a later one
            \* that finds the (failed) result in a run-once function's memo
            /\ \A k \in DOMAIN log : k # i => \A t \in Ran(log[k].args) : t > 0 => t \notin Ran(log[i].outs)
            /\ HasRet(log[i].phase) =>
                 /\ Ret(log[i].phase).errid = log[i].errid
                 \* errid -1: the body returned a nil pointer inside the error interface - still a non-nil error
                 /\ Ret(log[i].phase).kind = (IF log[i].errid = 0 - 1 THEN "nilerr" ELSE IF log[i].fn = 0 THEN "targeterr" ELSE "converr")
       /\ \A c \in DOMAIN rets :
            /\ rets[c].kind # "wrappederr"
            /\ rets[c].kind = "ok" => \A i \in DOMAIN log : log[i].phase = rets[c].phase => ~log[i].fails
            /\ rets[c].kind \in {"converr", "targeterr", "nilerr"} =>
                 \* (the failing execution may belong to another phase: an earlier call of a history, or another
                 \* goroutine of a concurrent run, when the error comes from a run-once function's memo)
                 \E i \in DOMAIN log : log[i].fails /\ log[i].errid = rets[c].errid
            /\ rets[c].kind = "converr" => ~TargetRan(rets[c].phase)

\* C05  chaining is complete on well-behaved converter sets; outcome stable over repetitions
\* (a target whose parameter AND result is the error type is set aside: the value it returns counts as the call's error)
C05 == (scn.mode \in {"call", "convert", "convcall"} /\ Plain /\ WellBehaved /\ \A j \in DOMAIN TP : TP[j].type # "E") =>
          /\ (HasRet(P0) /\ TargetDerivMust) => Ret(P0).kind \in {"ok", "converr", "targeterr", "nilerr"}
          /\ NoFailing => Cardinality(kinds) <= 1

\* converter generators are asked about every value of the graph: every supplied value and every named input and every
\* result of a supplied converter - whether or not the value exists yet (a generated converter completes a chain like a
\* supplied one; the chain itself is then judged as above through AllConvs)
\* (a type-only INPUT of a converter is a requirement, not a value: generators are not asked about it)
ConvIO == UNION {{a \in Ran(scn.convs[i].in) : a.name # ""} \cup Ran(scn.convs[i].out) : i \in DOMAIN scn.convs}
C05gen == (scn.mode \in {"call", "convert", "convcall"} /\ scn.bad = "" /\ NoErrGen /\ HasRet(P0) /\ Ret(P0).kind \notin {"panic", "crash", "timeout"}) =>
            \A g \in DOMAIN scn.gens : scn.gens[g].mode = "conv" =>
              \A a \in SuppliedFolded \cup ConvIO : a.type = scn.gens[g].from =>
                \E k \in DOMAIN gens : gens[k].fin = <<a>> /\ gens[k].fout[1].type = scn.gens[g].to

\* the option values given to NewFunc belong to the caller: a second function configured from the same array (one element
\* longer) still receives its own default after anything was done with the first
OptsIntact == \A c \in DOMAIN rets : ~rets[c].sibbad

\* C06  calls always return
C06 == \A c \in DOMAIN rets : rets[c].kind \notin {"panic", "crash", "timeout"}

\* C13  the unsatisfied-argument error is accurate
ConvOutputs == UNION {Ran(AllConvs[i].out) : i \in DOMAIN AllConvs}
Hopeless(p) == ~\E a \in SuppliedAll \cup ConvOutputs : MayMatch(p, a)
C13 == (CallMode /\ scn.bad = "" /\ NoErrGen /\ HasRet(P0) /\ \E j \in DOMAIN TP : Hopeless(TP[j])) =>
          LET r == Ret(P0) IN
          /\ r.kind = "unsat" /\ r.asok
          /\ \A j \in DOMAIN TP : Hopeless(TP[j]) => TP[j] \in Ran(r.missing)
          /\ \A m \in Ran(r.missing) :
               /\ m \in Ran(TP)
               /\ ~\E a \in DerivMustS : MustMatch(m, a)
               /\ ExactIdx(m) = {}
          /\ Ran(r.einputs) = SuppliedFolded /\ Len(r.einputs) = Cardinality(SuppliedFolded)
          /\ \A k \in DOMAIN scn.convs : k \in Ran(r.econvs)
          /\ r.msgok

\* C07  name affinity decides between equal candidates (judged on the spec-enumerated families
\* C07a / C07b of MC_Family: parameter n:U produced by conversion from T1, several same-typed
\* named values supplied, one of them named n)
NamedIdx(n, t) == {j \in FoldedIdx(scn.inputs) : scn.inputs[j].name = n /\ scn.inputs[j].type = t}
C07f == scn.family = "C07f" =>
          /\ HasRet(P0) => Ret(P0).kind = "ok"
          /\ \A k \in DOMAIN log : log[k].fn # 0 =>
               /\ Len(log[k].fin) = 2 => log[k].args[1] \in {ITok(x) : x \in NamedIdx("a", "T1")}    \* the outer conversion (for a)
               /\ Len(log[k].fin) = 1 => log[k].args[1] \in {ITok(x) : x \in NamedIdx("b", "T1")}    \* the nested one (for b)
C07g == scn.family = "C07g" =>
          /\ HasRet(P0) => Ret(P0).kind = "ok"
          /\ \A k \in DOMAIN log : log[k].fn # 0 => log[k].fin[1].name = "a"                        \* the name-using converter runs
C07abc == scn.family \in {"C07a", "C07b", "C07c"} =>
          /\ HasRet(P0) => Ret(P0).kind = "ok"
          /\ \A i \in DOMAIN log : log[i].fn = 0 => \A j \in DOMAIN TP :
               LET t == log[i].args[j]
                   prods == {k \in 1..(i - 1) : t \in Ran(log[k].outs)}
               IN /\ prods # {}                                          \* the parameter was produced by conversion
                  /\ \A k \in prods :
                       /\ log[k].fin[1].type = "T1"
                       \* the same-named value is the one converted
                       /\ log[k].args[1] \in {ITok(x) : x \in NamedIdx(TP[j].name, "T1")}
                       /\ scn.family = "C07b" => log[k].fin[1].name = TP[j].name   \* the name-using converter runs

C07 == C07abc /\ C07f /\ C07g
\* KNOWN FINDING K1 (open, known_findings.json): when the converter is entered through a directly supplied NAMED input, its
\* type-only input is searched for inside reachTarget of the converter, for a typed-argument vertex - and the name discount
\* is only applied when the searched vertex is a named value.  The candidates tie and map order decides.  The clause is
\* kept as an invariant of its own so that the check reports exactly this input shape as known and everything else as new.
C07h == /\ scn.family = "C07h" =>
            /\ HasRet(P0) => Ret(P0).kind = "ok"
            /\ \A k \in DOMAIN log : log[k].fn # 0 => log[k].args[2] \in {ITok(x) : x \in NamedIdx("a", "T1")}
        /\ scn.family = "C07hb" =>
            /\ HasRet(P0) => Ret(P0).kind = "ok"
            /\ \A k \in DOMAIN log : (log[k].fn # 0 /\ log[k].fout[1].type = "T2") => log[k].args[1] \in {ITok(x) : x \in NamedIdx("a", "T1")}

\* C16  options: last occurrence of a key wins (defaults come first, call options after), nil values
\* are ignored, a nil option is an error (judged on the spec-enumerated family C16 of MC_Family;
\* the harness varies the case of the names on both sides)
LastIdx(p) == LET S == {k \in DOMAIN scn.inputs : scn.inputs[k] = p} IN CHOOSE k \in S : \A m \in S : m <= k
C16reuse == scn.family = "C16reuse" =>
              \* second call (phase P0 + 1): only the first option of the first call, which does not carry the requested subtype
              /\ ~TargetRan(P0 + 1)
              /\ HasRet(P0 + 1) => Ret(P0 + 1).kind = "unsat"
C16main == scn.family = "C16" =>
          IF scn.bad = "nilarg"
          THEN ~TargetRan(P0) /\ (HasRet(P0) => Ret(P0).kind = "othererr")
          ELSE /\ HasRet(P0) => Ret(P0).kind = "ok"
               \* "typednil": the harness gives, as the LAST option, a nil pointer of the (pointer-typed) first parameter's type
               \* under that parameter's key.  A typed nil is a value like any other (token -1): it is the one injected.
               /\ \A i \in DOMAIN log : (log[i].phase = P0 /\ log[i].fn = 0) =>
                    \A j \in DOMAIN TP : log[i].args[j] = (IF scn.bad = "typednil" /\ j = 1 THEN 0 - 1 ELSE ITok(LastIdx(TP[j])))
               \* the harness calls the function a second time without the values given at Call (phase P0 + 1):
               \* the defaults given at construction apply, and nothing of the first call lingers
               /\ \A i \in DOMAIN log : (log[i].phase = P0 + 1 /\ log[i].fn = 0) =>
                    \A j \in DOMAIN TP :
                      LET S == {k \in 1..scn.ndef : k \in DOMAIN scn.inputs /\ scn.inputs[k] = TP[j]} IN
                      /\ S # {}
                      /\ log[i].args[j] = ITok(CHOOSE k \in S : \A m \in S : m <= k)

C16 == C16main /\ C16reuse

\* C10  Convert agrees with calling an identity function of the target type.  A "convcall" scenario runs
\* Convert(T, args) (phase P0) and, on a second identically built set of objects, Call of func(T) T with
\* the same args (phase P0 + 1).
ValLabels(t) == {scn.inputs[j] : j \in {k \in DOMAIN scn.inputs : ITok(k) = t}}
                \cup UNION {{log[k].fout[j] : j \in {m \in DOMAIN log[k].outs : log[k].outs[m] = t}} : k \in {x \in DOMAIN log : log[x].phase = P0}}
C10 == (scn.mode \in {"convert", "convcall"} /\ HasRet(P0)) =>
          LET rc == Ret(P0) IN
          \* (a converter returning a nil struct pointer legitimately yields zero values - a nil interface among them)
          /\ (rc.kind = "ok" /\ \A i \in DOMAIN scn.convs : ~scn.convs[i].nilOut) =>
                /\ ~rc.valnil /\ rc.valok
                /\ \E lab \in ValLabels(rc.valtok) : MayMatch(TP[1], lab)   \* a supplied or converted value of a matching label
          /\ rc.kind # "ok" => rc.valnil                                                 \* (nil, err)
          /\ (rc.kind = "ok" /\ TP[1].type = "PE") => ~rc.valnil       \* a nil pointer of the target type is a value of that type
          /\ scn.bad \in {"nilarg", "nonfunc", "nilconv"} => rc.kind # "ok"              \* a malformed option is an error for Convert too
          /\ (scn.mode = "convcall" /\ HasRet(P0 + 1)) =>
               LET rk == Ret(P0 + 1) IN
               \* on well-behaved converter sets the outcome does not depend on tie-breaks: both succeed or both fail,
               \* and a failure is the same kind of failure
               /\ (scn.gens = <<>> /\ WellBehaved /\ NoFailing) => (rc.kind = "ok") = (rk.kind = "ok")
               /\ (Plain /\ Underivable) => (rc.kind # "ok" /\ rk.kind # "ok")
               \* (which of several equally good values is injected is a tie-break; that the returned value obeys the
               \* matching table is the clause above, that the call twin's argument does is C01)

-----------------------------------------------------------------------------
\* C08  Redefine yields a callable function over exactly the missing, permitted inputs
NoSubs(ls) == \A j \in DOMAIN ls : ls[j].sub = ""
AllLabels == Ran(TP) \cup SuppliedAll \cup UNION {Ran(scn.convs[i].in) \cup Ran(scn.convs[i].out) : i \in DOMAIN scn.convs}
OneTypePerName == \A a, b \in AllLabels : (a.name # "" /\ a.name = b.name) => a.type = b.type
Dom8 == /\ scn.mode = "redefine" /\ Plain /\ SingleIn /\ OneTypePerName
        /\ \A a \in AllLabels : a.sub = ""
Permitted(l) == ~scn.hasFilter \/ l.type \in Ran(scn.filterIn) \/ \E t \in Ran(scn.filterIn) : <<l.type, t>> \in Impl
\* KNOWN FINDING K2 (open): the clause "calling the returned function with a value for each declared input never fails for
\* lack of an argument", for a named interface-typed declared input (family C08k).  Kept as an invariant of its own.
C08k == (scn.family = "C08k" /\ redef.ev = "redef") =>
          /\ redef.ok
          /\ \A q \in {P0 + 1, P0 + 2} : HasRet(q) => (Ret(q).kind # "unsat" /\ ~(Ret(q).kind = "othererr" /\ Ret(q).lack))
C08 == (Dom8 /\ scn.family # "C08k" /\ redef.ev = "redef") =>
          /\ redef.ok => \A x \in Ran(redef.inputs) : Permitted(x) /\ x \notin SuppliedFolded
          /\ (scn.filterOut = "reject" /\ scn.target.out # <<>>) => ~redef.ok
          /\ (scn.filterOut # "reject" /\ \A j \in DOMAIN TP : Permitted(TP[j])) => redef.ok
          /\ \A q \in {P0 + 1, P0 + 2} : HasRet(q) =>
               LET r == Ret(q) IN
               \* never fails for lack of an argument (an error value produced by a user body is not the library's complaint)
               /\ r.kind # "unsat" /\ ~(r.kind = "othererr" /\ r.lack)
               \* nor for any other complaint of the library's own (e.g. about the options Redefine was given, which it keeps a copy of):
               \* the only errors of such a call are those of user bodies
               /\ scn.bad = "" => r.kind # "othererr"
               \* the original function's own results - also those it returns next to an error of its own
               /\ r.kind \in {"ok", "targeterr"} =>
                    \E i \in DOMAIN log : /\ log[i].phase = q /\ log[i].fn = 0
                                          /\ r.outs = log[i].outs
          \* the second call receives nothing of the first: no value handed to the first call reaches a function of the second
          \* (a third call leaves the last declared input out)
          /\ \A i \in DOMAIN log : log[i].phase \in {P0 + 2, P0 + 3} => \A j \in DOMAIN log[i].args : log[i].args[j] \notin Ran(redef.toks)
          \* nor does a zero value of the second call reach the third (which supplies none)
          /\ (\A c \in DOMAIN scn.convs : ~scn.convs[c].nilOut) =>
               \A i \in DOMAIN log : log[i].phase = P0 + 3 => \A j \in DOMAIN log[i].args : log[i].args[j] # 0

\* C08 over histories: planning must not depend on what earlier calls left behind (e.g. the memoized failure of a run-once
\* converter).  Without an input filter every parameter is permitted, so a Redefine step of a history succeeds.
C08life == (scn.family = "life" /\ scn.mode = "redefine" /\ ~scn.hasFilter /\ scn.bad = "" /\ redef.ev = "redef") => redef.ok

\* C09 (per call part)  Redefine runs no user code
C09 == /\ redef.ev = "redef" => redef.execs = 0
       /\ scn.mode = "redefine" => \A i \in DOMAIN log : log[i].phase # P0

\* C11  a run-once function executes at most once (over the whole history when objects are shared);
\* later uses can only deliver what that execution produced: its tokens (C01) or its error (C04)
C11 == /\ \A f \in DOMAIN scn.convs : scn.convs[f].once => Cardinality({i \in DOMAIN log : log[i].fn = f}) <= 1
       \* a run-once target (identified by its signature, unique in a pool)
       /\ scn.target.once => Cardinality({i \in DOMAIN log : log[i].fn = 0 /\ log[i].fin = scn.target.in /\ log[i].fout = scn.target.out}) <= 1
=============================================================================
