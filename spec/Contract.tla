------------------------------ MODULE Contract ------------------------------
(***************************************************************************)
(* The contract layer: what one use of the library (Call / Convert /       *)
(* Redefine + call of the redefined function) may do and must do, in terms *)
(* of labels and provenance tokens.  The state is what an observer of the  *)
(* real code sees: the scenario, the executions of user function bodies    *)
(* (with the tokens they received and produced) and the returned results.  *)
(* Every listed resolver property is a state invariant of this module; it  *)
(* is evaluated by TLC on traces recorded from the real code               *)
(* (ContractTrace.tla) and on the behaviours of the faithful model         *)
(* (Resolver.tla, through a refinement mapping).                           *)
(***************************************************************************)
EXTENDS Labels, Integers, TLC

VARIABLES
  scn,     \* the scenario record (harness/scn/types.go: Scenario)
  gens,    \* converters produced by generators in this run: <<[fn, fin, fout]>>
  log,     \* executions of user bodies: <<[fn, fin, fout, args, outs, fails, errid, phase]>>
  rets,    \* returned results: <<[kind, errid, missing, einputs, econvs, msgok, asok, len, outs, phase, lack, ...]>>
  redef,   \* result of Redefine: [ok, inputs, toks, execs] or NoRedef
  kinds    \* success/failure classes seen so far over repetitions of this scenario

cvars == <<scn, gens, log, rets, redef, kinds>>

NoRedef == [ev |-> "none", ok |-> FALSE, inputs |-> <<>>, toks |-> <<>>, execs |-> 0, detail |-> ""]
NoScn == [sid |-> 0, mode |-> "none", target |-> [in |-> <<>>, out |-> <<>>, form |-> "struct", hasErr |-> FALSE, fails |-> FALSE, once |-> FALSE, nilOut |-> FALSE],
          inputs |-> <<>>, ndef |-> 0, convs |-> <<>>, gens |-> <<>>, hasFilter |-> FALSE, filterIn |-> <<>>, filterOut |-> "none", bad |-> "", family |-> ""]

-----------------------------------------------------------------------------
\* derived notions

TP == scn.target.in                                   \* parameters of the target
GenConvs == [k \in DOMAIN gens |-> [in |-> gens[k].fin, out |-> gens[k].fout]]
AllConvs == [k \in 1..(Len(scn.convs) + Len(gens)) |->
               IF k <= Len(scn.convs) THEN [in |-> scn.convs[k].in, out |-> scn.convs[k].out]
               ELSE GenConvs[k - Len(scn.convs)]]
ScnConvs == [k \in DOMAIN scn.convs |-> [in |-> scn.convs[k].in, out |-> scn.convs[k].out]]

SuppliedAll == Ran(scn.inputs)
SuppliedFolded == Folded(scn.inputs)
DerivMayS == Fix(AllConvs, MayMatch, SuppliedAll)          \* upper bound of what can be derived
DerivMustS == Fix(ScnConvs, MustMatch, SuppliedFolded)     \* lower bound

HasRet(p) == \E i \in DOMAIN rets : rets[i].phase = p
Ret(p) == rets[CHOOSE i \in DOMAIN rets : rets[i].phase = p]
TargetRan(p) == \E i \in DOMAIN log : log[i].phase = p /\ log[i].fn = 0

Plain == scn.bad = "" /\ scn.gens = <<>>
CallMode == scn.mode = "call"
NoErrGen == \A k \in DOMAIN scn.gens : scn.gens[k].mode # "err"

Underivable == \E j \in DOMAIN TP : ~\E a \in DerivMayS : MayMatch(TP[j], a)
TargetDerivMust == \A j \in DOMAIN TP : \E a \in DerivMustS : MustMatch(TP[j], a)
SingleIn == \A i \in DOMAIN scn.convs : Len(scn.convs[i].in) <= 1
AllConvSat == \A i \in DOMAIN ScnConvs : SatBy(ScnConvs[i], MustMatch, DerivMustS)
WellBehaved == SingleIn \/ (AllConvSat /\ Acyclic(ScnConvs))
NoFailing == ~scn.target.fails /\ \A i \in DOMAIN scn.convs : ~scn.convs[i].fails

ExactIdx(p) == {j \in FoldedIdx(scn.inputs) : scn.inputs[j] = p}
Exact == CallMode /\ scn.bad = "" /\ NoErrGen /\ \A j \in DOMAIN TP : ExactIdx(TP[j]) # {}

\* labels a token may legitimately carry when it is seen by execution number i of the log
TokLabels(t, i) ==
  {scn.inputs[j] : j \in {k \in DOMAIN scn.inputs : k = t}}
  \cup (IF log[i].phase >= 2 THEN {redef.inputs[j] : j \in {k \in DOMAIN redef.toks : redef.toks[k] = t}} ELSE {})
  \cup UNION {{log[k].fout[j] : j \in {m \in DOMAIN log[k].outs : log[k].outs[m] = t}} : k \in 1..(i - 1)}

Class(k) == IF k \in {"ok", "targeterr"} THEN "resolved" ELSE "refused"

-----------------------------------------------------------------------------
\* C01  every injected value is a label- and type-correct binding, never fabricated
C01 == \A i \in DOMAIN log : LET e == log[i] IN
          /\ Len(e.args) = Len(e.fin)
          /\ \A j \in DOMAIN e.fin : \E lab \in TokLabels(e.args[j], i) : MayMatch(e.fin[j], lab)
          /\ (e.fn >= 1 /\ e.fn <= Len(scn.convs)) => (e.fin = scn.convs[e.fn].in /\ e.fout = scn.convs[e.fn].out)
          /\ (e.fn = 0) => e.fin = scn.target.in

\* C02  unsatisfiable calls are refused: error returned, target never run
C02 == (scn.mode \in {"call", "convert"} /\ Underivable) =>
          /\ ~TargetRan(1)
          /\ HasRet(1) =>
               /\ Ret(1).kind \in {"unsat", "othererr", "converr"}
               /\ (Plain /\ AllConvSat) => (Ret(1).kind = "unsat" /\ Ret(1).asok)

\* C03  exact matches win
C03 == Exact =>
          /\ \A i \in DOMAIN log : log[i].phase = 1 =>
               /\ log[i].fn = 0
               /\ \A j \in DOMAIN TP :
                    IF TP[j].name # "" THEN log[i].args[j] \in ExactIdx(TP[j])
                    ELSE log[i].args[j] \in DOMAIN scn.inputs /\ scn.inputs[log[i].args[j]].type = TP[j].type
          /\ HasRet(1) => (Ret(1).kind \in {"ok", "targeterr"} /\ TargetRan(1))

\* C04  a failing converter aborts the call and its error is returned verbatim
C04 == /\ \A i \in DOMAIN log : log[i].fails =>
            /\ \A k \in DOMAIN log : k > i => log[k].phase # log[i].phase
            /\ HasRet(log[i].phase) =>
                 /\ Ret(log[i].phase).errid = log[i].errid
                 /\ Ret(log[i].phase).kind = (IF log[i].fn = 0 THEN "targeterr" ELSE "converr")
       /\ \A c \in DOMAIN rets :
            /\ rets[c].kind # "wrappederr"
            /\ rets[c].kind = "ok" => \A i \in DOMAIN log : log[i].phase = rets[c].phase => ~log[i].fails
            /\ rets[c].kind \in {"converr", "targeterr"} =>
                 \E i \in DOMAIN log : log[i].fails /\ log[i].errid = rets[c].errid /\ log[i].phase <= rets[c].phase
            /\ rets[c].kind = "converr" => ~TargetRan(rets[c].phase)

\* C05  chaining is complete on well-behaved converter sets; outcome stable over repetitions
C05 == (CallMode /\ Plain /\ WellBehaved) =>
          /\ (HasRet(1) /\ TargetDerivMust) => Ret(1).kind \in {"ok", "converr", "targeterr"}
          /\ NoFailing => Cardinality(kinds) <= 1

\* C06  calls always return
C06 == \A c \in DOMAIN rets : rets[c].kind \notin {"panic", "crash", "timeout"}

\* C13  the unsatisfied-argument error is accurate
ConvOutputs == UNION {Ran(AllConvs[i].out) : i \in DOMAIN AllConvs}
Hopeless(p) == ~\E a \in SuppliedAll \cup ConvOutputs : MayMatch(p, a)
C13 == (CallMode /\ scn.bad = "" /\ NoErrGen /\ HasRet(1) /\ \E j \in DOMAIN TP : Hopeless(TP[j])) =>
          LET r == Ret(1) IN
          /\ r.kind = "unsat" /\ r.asok
          /\ \A j \in DOMAIN TP : Hopeless(TP[j]) => TP[j] \in Ran(r.missing)
          /\ \A m \in Ran(r.missing) :
               /\ m \in Ran(TP)
               /\ ~\E a \in DerivMustS : MustMatch(m, a)
               /\ ExactIdx(m) = {}
          /\ Ran(r.einputs) = SuppliedFolded /\ Len(r.einputs) = Cardinality(SuppliedFolded)
          /\ \A k \in DOMAIN scn.convs : k \in Ran(r.econvs)
          /\ r.msgok

-----------------------------------------------------------------------------
\* C08  Redefine yields a callable function over exactly the missing, permitted inputs
NoSubs(ls) == \A j \in DOMAIN ls : ls[j].sub = ""
AllLabels == Ran(TP) \cup SuppliedAll \cup UNION {Ran(scn.convs[i].in) \cup Ran(scn.convs[i].out) : i \in DOMAIN scn.convs}
OneTypePerName == \A a, b \in AllLabels : (a.name # "" /\ a.name = b.name) => a.type = b.type
Dom8 == /\ scn.mode = "redefine" /\ Plain /\ SingleIn /\ OneTypePerName
        /\ \A a \in AllLabels : a.sub = ""
Permitted(l) == ~scn.hasFilter \/ l.type \in Ran(scn.filterIn) \/ \E t \in Ran(scn.filterIn) : <<l.type, t>> \in Impl
C08 == (Dom8 /\ redef.ev = "redef") =>
          /\ redef.ok => \A x \in Ran(redef.inputs) : Permitted(x) /\ x \notin SuppliedFolded
          /\ (scn.filterOut = "reject" /\ scn.target.out # <<>>) => ~redef.ok
          /\ (scn.filterOut # "reject" /\ \A j \in DOMAIN TP : Permitted(TP[j])) => redef.ok
          /\ HasRet(2) =>
               LET r == Ret(2) IN
               /\ ~r.lack /\ r.kind # "unsat"
               /\ r.kind = "ok" =>
                    \E i \in DOMAIN log : /\ log[i].phase = 2 /\ log[i].fn = 0
                                          /\ r.outs = log[i].outs

\* C09 (per call part)  Redefine runs no user code
C09 == /\ redef.ev = "redef" => redef.execs = 0
       /\ scn.mode = "redefine" => \A i \in DOMAIN log : log[i].phase # 1
=============================================================================
