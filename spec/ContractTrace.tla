--------------------------- MODULE ContractTrace ---------------------------
(***************************************************************************)
(* Trace validation, direction implementation -> specification.           *)
(* The harness records one short trace per execution of a scenario on the  *)
(* real library (reset, gens, execs, redef, rets); thousands of them are    *)
(* concatenated.  Every line is consumed by exactly one action, each       *)
(* action only extends the observer state of Contract.tla, and the         *)
(* property is an INVARIANT of that state: a failure is an ordinary TLC    *)
(* counterexample whose last state names the scenario and the line.        *)
(* Acceptance (nothing skipped) is the POSTCONDITION.                      *)
(***************************************************************************)
EXTENDS Contract, Json, SequencesExt

CONSTANT TraceFile
Trace == ndJsonDeserialize(TraceFile)

VARIABLE l        \* next line of the trace
vars == <<cvars, l>>

Init == /\ l = 1 /\ scn = NoScn /\ gens = <<>> /\ log = <<>> /\ rets = <<>> /\ redef = NoRedef /\ kinds = {}

IsEvent(name) == l <= Len(Trace) /\ Trace[l].ev = name /\ l' = l + 1

\* a new execution starts; repetitions of the same scenario are adjacent in the trace
TraceReset ==
  /\ IsEvent("reset")
  /\ scn' = Trace[l].scn
  /\ kinds' = IF Trace[l].scn.sid = scn.sid /\ Trace[l].rep > 0 THEN kinds ELSE {}
  /\ gens' = <<>> /\ log' = <<>> /\ rets' = <<>> /\ redef' = NoRedef

TraceGen ==
  /\ IsEvent("gen")
  /\ gens' = Append(gens, Trace[l])
  /\ UNCHANGED <<scn, log, rets, redef, kinds>>

TraceExec ==
  /\ IsEvent("exec")
  /\ log' = Append(log, Trace[l])
  /\ UNCHANGED <<scn, gens, rets, redef, kinds>>

TraceRedef ==
  /\ IsEvent("redef")
  /\ redef' = Trace[l]
  /\ UNCHANGED <<scn, gens, log, rets, kinds>>

TraceRet ==
  /\ IsEvent("ret")
  /\ rets' = Append(rets, Trace[l])
  /\ kinds' = IF Trace[l].phase = 1 THEN kinds \cup {Class(Trace[l].kind)} ELSE kinds
  /\ UNCHANGED <<scn, gens, log, redef>>

Next == TraceReset \/ TraceGen \/ TraceExec \/ TraceRedef \/ TraceRet
Spec == Init /\ [][Next]_vars

\* every line was consumed
Accepted == TLCGet("stats").diameter - 1 = Len(Trace)
\* error traces are displayed through this alias: only the position (the driver cuts the
\* offending execution out of the ndjson file for the replay)
Pos == [line |-> l, sid |-> scn.sid]

\* deliberately wrong "properties" used by the self-test to show the invariants are live
NeverOk == \A c \in DOMAIN rets : rets[c].kind # "ok"
NeverExec == log = <<>>
=============================================================================
