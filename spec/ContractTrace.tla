--------------------------- MODULE ContractTrace ---------------------------
(***************************************************************************)
(* Trace validation, direction implementation -> specification.           *)
(* The harness records one short trace per execution of a scenario on the  *)
(* real library (reset, gens, execs, redef, rets); thousands of them are    *)
(* concatenated.  Every line is consumed by exactly one action, each       *)
(* action only extends the observer state of Contract.tla, and the         *)
(* property is an INVARIANT of that state: a failure is an ordinary TLC    *)
(* counterexample whose last state names the scenario and the line.        *)
(* Acceptance (nothing skipped) is the POSTCONDITION.                      *)
(***************************************************************************)
EXTENDS Contract, Json, SequencesExt

CONSTANT TraceFile
Trace == ndJsonDeserialize(TraceFile)

VARIABLES l,            \* next line of the trace
          plog, prets   \* executions and results of the previous scenario / history (twin rule of C09)
vars == <<cvars, l, plog, prets>>

Init == /\ l = 1 /\ plog = <<>> /\ prets = <<>> /\ scn = NoScn /\ gens = <<>> /\ log = <<>> /\ rets = <<>> /\ redef = NoRedef /\ kinds = {}

IsEvent(name) == l <= Len(Trace) /\ Trace[l].ev = name /\ l' = l + 1

\* a new execution starts; repetitions of the same scenario are adjacent in the trace
TraceReset ==
  /\ IsEvent("reset")
  /\ scn' = Trace[l].scn
  /\ kinds' = IF Trace[l].scn.sid = scn.sid /\ Trace[l].rep > 0 THEN kinds ELSE {}
  \* a step of a history on shared objects keeps the executions and results seen so far
  /\ IF Trace[l].scn.carry THEN UNCHANGED <<log, rets, plog, prets>>
     ELSE log' = <<>> /\ rets' = <<>> /\ plog' = log /\ prets' = rets
  /\ gens' = <<>> /\ redef' = NoRedef

TraceGen ==
  /\ IsEvent("gen")
  /\ gens' = Append(gens, Trace[l])
  /\ UNCHANGED <<scn, log, rets, redef, kinds, plog, prets>>

TraceExec ==
  /\ IsEvent("exec")
  /\ log' = Append(log, Trace[l])
  /\ UNCHANGED <<scn, gens, rets, redef, kinds, plog, prets>>

TraceRedef ==
  /\ IsEvent("redef")
  /\ redef' = Trace[l]
  /\ UNCHANGED <<scn, gens, log, rets, kinds, plog, prets>>

TraceRet ==
  /\ IsEvent("ret")
  /\ rets' = Append(rets, Trace[l])
  /\ kinds' = IF Trace[l].phase = scn.phase0 THEN kinds \cup {Class(Trace[l].kind)} ELSE kinds
  /\ UNCHANGED <<scn, gens, log, redef, plog, prets>>

Next == TraceReset \/ TraceGen \/ TraceExec \/ TraceRedef \/ TraceRet
Spec == Init /\ [][Next]_vars

\* C09, twin rule: a history marked twinOf = 1 repeats the previous history without its Redefine
\* steps (same pool, fresh objects, same phase numbers); since Redefine is pure planning, every phase
\* must show exactly the same executions and the same result
Ex(e) == <<e.fn, e.args, e.outs, e.fails, e.errid>>
PhaseExecs(lg, p) == LET q == SelectSeq(lg, LAMBDA e : e.phase = p) IN [i \in DOMAIN q |-> Ex(q[i])]
C09twin == scn.twinOf = 1 =>
   /\ \A i \in DOMAIN log : i \in DOMAIN plog /\ Ex(log[i]) = Ex(plog[i]) /\ log[i].phase = plog[i].phase
   /\ \A c \in DOMAIN rets :
        /\ PhaseExecs(log, rets[c].phase) = PhaseExecs(plog, rets[c].phase)
        /\ \E d \in DOMAIN prets : /\ prets[d].phase = rets[c].phase /\ prets[d].kind = rets[c].kind
                                    /\ prets[d].errid = rets[c].errid /\ prets[d].outs = rets[c].outs
                                    /\ prets[d].valtok = rets[c].valtok

\* every line was consumed
Accepted == TLCGet("stats").diameter - 1 = Len(Trace)
\* error traces are displayed through this alias: only the position (the driver cuts the
\* offending execution out of the ndjson file for the replay)
Pos == [line |-> l, sid |-> scn.sid]

\* deliberately wrong "properties" used by the self-test to show the invariants are live
NeverOk == \A c \in DOMAIN rets : rets[c].kind # "ok"
NeverExec == log = <<>>
=============================================================================
