----------------------------- MODULE OnceTrace -----------------------------
(***************************************************************************)
(* Trace validation for the run-once protocol.  The harness runs G         *)
(* goroutines against one shared FuncOnce converter, either forcing a      *)
(* schedule emitted by TLC (the verif hooks are blocking gates) or free    *)
(* running (the hooks only record).  Every observed hook event must be a   *)
(* step of Once.tla, and the run's own counters must agree: number of body *)
(* executions, value received by every call.                               *)
(***************************************************************************)
EXTENDS Once

CONSTANT TraceFile
Trace == ndJsonDeserialize(TraceFile)

VARIABLES l, stepok, fin
tvars == <<vars, l, stepok, fin>>

NoFin == [ev |-> "none"]
TInit == Init /\ l = 1 /\ stepok = TRUE /\ fin = NoFin
Ev == Trace[l]
Consume == l <= Len(Trace) /\ l' = l + 1

TStart == /\ Consume /\ Ev.ev = "start"
          /\ pc' = [g \in Gs |-> "idle"] /\ used' = [g \in Gs |-> 0] /\ lock' = 0 /\ memo' = 0 /\ execs' = 0
          /\ mine' = [g \in Gs |-> 0] /\ got' = [g \in Gs |-> <<>>] /\ sched' = <<>>
          /\ stepok' = TRUE /\ fin' = NoFin

\* an observed hook event: legal iff the corresponding action of Once is enabled; it is applied if it is
Act(g, e) == CASE e = "enter" -> Enter(g) [] e = "check" -> Check(g) [] e = "exec" -> Exec(g) [] OTHER -> Store(g)
TStep == /\ Consume /\ Ev.ev = "step"
         /\ IF ENABLED Act(Ev.g, Ev.e) THEN Act(Ev.g, Ev.e) /\ UNCHANGED stepok
            ELSE stepok' = FALSE /\ UNCHANGED vars
         /\ UNCHANGED fin

TEnd == /\ Consume /\ Ev.ev = "end" /\ fin' = Ev /\ UNCHANGED <<vars, stepok>>

TNext == TStart \/ TStep \/ TEnd
TSpec == TInit /\ [][TNext]_tvars

\* every observed step is a step of the protocol
StepsLegal == stepok
\* C11 on the run's own observations, whatever schedule the code followed: the body ran at most once and every
\* call received the outputs of that execution.  This is the verdict.
RunOK == fin.ev = "end" =>
   /\ fin.execs <= 1
   /\ \A i \in DOMAIN fin.results : fin.results[i] = fin.first
\* conformance with the locked protocol (model drift if violated, not a verdict): a schedule the specification
\* allows can be followed, one only the lock-free protocol allows cannot, the step counts agree
ProtocolOK == fin.ev = "end" =>
   /\ fin.feasible => fin.execs = execs
   /\ fin.mode = "forced" => fin.feasible
   /\ fin.mode = "adversarial" => ~fin.feasible
Accepted == TLCGet("stats").diameter - 1 = Len(Trace)
Pos == [line |-> l, sid |-> 0]
=============================================================================
