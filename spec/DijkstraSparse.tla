--------------------------- MODULE DijkstraSparse ---------------------------
(***************************************************************************)
(* C18 on LONG graphs (more than a thousand vertices, shortest paths of    *)
(* more than a thousand edges), where the N x N weight matrix and the      *)
(* Bellman-Ford rounds of Dijkstra.tla are out of TLC's reach.  One trace  *)
(* line = one search from vertex 1 on a graph given as an edge list that   *)
(* contains the chain 1 -> 2 -> ... -> n, all weights >= 1.  The result    *)
(* (d, p) is judged by a CERTIFICATE that is equivalent to the statement   *)
(* of C18 on such graphs:                                                  *)
(*   Feasible - d[1] = 0 and d[v] <= d[u] + w for every edge: d is a lower *)
(*              bound of every path weight, and finite everywhere (chain)  *)
(*   Tight    - every other vertex has a predecessor p[v] with an existing *)
(*              edge (p[v], v, w) and d[v] = d[p[v]] + w: since w >= 1 the *)
(*              predecessor chain strictly descends to the source and its  *)
(*              weights sum to d[v], so d is also an upper bound           *)
(*   PathOK   - EdgeToPath of the last vertex is that chain.               *)
(***************************************************************************)
EXTENDS Naturals, Integers, Sequences, FiniteSets, Json, TLC

CONSTANT TraceFile
Trace == ndJsonDeserialize(TraceFile)

VARIABLES l, rec
Init == l = 1 /\ rec = [ev |-> "none"]
Next == l <= Len(Trace) /\ l' = l + 1 /\ rec' = Trace[l]
Spec == Init /\ [][Next]_<<l, rec>>

ESet(r) == {<<r.edges[i][1], r.edges[i][2], r.edges[i][3]>> : i \in DOMAIN r.edges}
MaxW(r) == CHOOSE m \in {r.edges[i][3] : i \in DOMAIN r.edges} : \A i \in DOMAIN r.edges : r.edges[i][3] <= m

WellFormed(r, E) ==
  /\ Len(r.dist) = r.n /\ Len(r.prev) = r.n
  /\ \A i \in DOMAIN r.edges : r.edges[i][1] \in 1..r.n /\ r.edges[i][2] \in 1..r.n /\ r.edges[i][3] >= 1
  /\ \A i \in 1..(r.n - 1) : \E w \in 1..2 : <<i, i + 1, w>> \in E        \* the chain: every vertex is reachable

Feasible(r) ==
  /\ r.dist[1] = 0 /\ r.prev[1] = 0
  /\ \A v \in 1..r.n : r.dist[v] >= 0
  /\ \A i \in DOMAIN r.edges : r.dist[r.edges[i][2]] <= r.dist[r.edges[i][1]] + r.edges[i][3]

Tight(r, E, mw) ==
  \A v \in 2..r.n :
    /\ r.prev[v] \in 1..r.n
    /\ \E w \in 1..mw : <<r.prev[v], v, w>> \in E /\ r.dist[v] = r.dist[r.prev[v]] + w

PathOK(r) ==
  LET p == r.path IN
  /\ Len(p) >= 1 /\ p[1] = 1 /\ p[Len(p)] = r.n
  /\ \A i \in 2..Len(p) : r.prev[p[i]] = p[i - 1]

C18 == rec.ev = "sparse" =>
  LET E == TLCEval(ESet(rec)) mw == TLCEval(MaxW(rec)) IN
  WellFormed(rec, E) => (Feasible(rec) /\ Tight(rec, E, mw) /\ PathOK(rec))
\* the harness's side of the bargain, checked first: a malformed graph line is a broken driver (exit 2), never a verdict
DriverOK == rec.ev = "sparse" => WellFormed(rec, TLCEval(ESet(rec)))

Accepted == TLCGet("stats").diameter - 1 = Len(Trace)
Pos == [line |-> l, sid |-> 0]
=============================================================================
