------------------------------ MODULE MC_Family ------------------------------
(***************************************************************************)
(* Spec-enumerated scenario families: for each property the quantifier     *)
(* domain is written as a set comprehension over a small label universe    *)
(* and TLC enumerates it completely.  Every scenario of the family is      *)
(*  (1) explored in the Resolver model over all tie-breaks, with the       *)
(*      property checked as a design-level invariant, and                  *)
(*  (2) emitted (EmitScn) so that the harness runs exactly the same        *)
(*      scenarios on the real code; the recorded traces are then judged    *)
(*      by ContractTrace.                                                  *)
(* Family selects the family, Size its universe (1 = quick, 2 = thorough). *)
(* The seeded random scenarios of the JSON file are explored as well.      *)
(***************************************************************************)
EXTENDS MC_Resolver

CONSTANTS Family, Size

F(i, o) == [in |-> i, out |-> o, form |-> "struct", hasErr |-> FALSE, fails |-> FALSE, once |-> FALSE, nilOut |-> FALSE]
FE(i, o, fl) == [in |-> i, out |-> o, form |-> "struct", hasErr |-> TRUE, fails |-> fl, once |-> FALSE, nilOut |-> FALSE]
FP(i, o) == [in |-> i, out |-> o, form |-> "pos", hasErr |-> FALSE, fails |-> FALSE, once |-> FALSE, nilOut |-> FALSE]
Scn(fam, t, ins, cs) ==
  [sid |-> 0, mode |-> "call", target |-> t, inputs |-> ins, ndef |-> 0, convs |-> cs, gens |-> <<>>,
   hasFilter |-> FALSE, filterIn |-> <<>>, filterOut |-> "none", bad |-> "", family |-> fam]
Q(S) == SetToSeq(S)
SubsetsUpTo(S, n) == {x \in SUBSET S : Cardinality(x) <= n}
DistinctKeys(ins) == \A i, j \in DOMAIN ins : i # j => Key(ins[i]) # Key(ins[j])
\* all sequences without repetition over a set
PermSeqs(S) == {p \in [1..Cardinality(S) -> S] : \A i, j \in 1..Cardinality(S) : i # j => p[i] # p[j]}

-----------------------------------------------------------------------------
\* C03: exact-key inputs x every subset of distractor inputs and distractor converters
C03Params == {L("a", "T1", ""), L("a", "T1", "s"), L("", "T1", ""), L("", "T1", "s")}
C03DI == {L("", "T1", ""), L("", "T1", "t"), L("b", "T1", ""), L("b", "T1", "s"), L("a", "T1", "t"), L("", "T2", ""), L("a", "T2", ""), L("a", "T2", "s"),
          L("a", "T1", "S"), L("", "T1", "S")}       \* subtypes are case sensitive: S is another subtype than s
C03Conv(p, k) == CASE k = 1 -> F(<<>>, <<p>>)                                        \* provider of the very same label
                   [] k = 2 -> F(<<>>, <<L("", "T1", "")>>)                          \* provider of the type
                   [] k = 3 -> F(<<L("", "T2", "")>>, <<p>>)                         \* converter to the same label
                   [] k = 4 -> F(<<L("", "T2", "")>>, <<L("", "T1", p.sub)>>)
                   [] k = 5 -> F(<<L("", "T1", "")>>, <<L("", "T2", "")>>)           \* away and back
                   [] k = 6 -> F(<<L("b", "T1", "")>>, <<L("a", "T1", "")>>)
                   [] OTHER -> F(<<L("a", "T2", "")>>, <<L("a", "T1", p.sub)>>)      \* same-named conversion
C03One == { Scn("C03", F(<<p>>, <<>>), <<p>> \o Q(di), [i \in 1..Cardinality(dc) |-> C03Conv(p, Q(dc)[i])]) :
              p \in C03Params, di \in SubsetsUpTo(C03DI, IF Size = 1 THEN 2 ELSE 3), dc \in SubsetsUpTo(1..7, IF Size = 1 THEN 2 ELSE 3) }
\* two parameters: a named and a type-only one of the same type, both exact
C03Two == { Scn("C03", F(<<p, q>>, <<>>), <<q, p>> \o Q(di), [i \in 1..Cardinality(dc) |-> C03Conv(p, Q(dc)[i])]) :
              p \in {L("a", "T1", ""), L("a", "T1", "s")}, q \in {L("", "T1", ""), L("", "T1", "s"), L("b", "T1", "")},
              di \in SubsetsUpTo(C03DI, IF Size = 1 THEN 1 ELSE 2), dc \in SubsetsUpTo(1..7, IF Size = 1 THEN 1 ELSE 2) }
C03Family == {s \in C03One \cup C03Two : DistinctKeys(s.inputs)}

-----------------------------------------------------------------------------
\* C07: name affinity.  Parameter a:T2 must be converted from T1; several same-typed named inputs compete.
C07Inputs == {L("a", "T1", ""), L("b", "T1", ""), L("c", "T1", ""), L("d", "T1", "")}
C07ConvIn == {L("", "T1", ""), L("a", "T1", "")}            \* type-only / name-using converter input
C07ConvOut == {L("", "T2", ""), L("a", "T2", "")}
C07Rev == F(<<L("", "T2", "")>>, <<L("", "T1", "")>>)
\* clause 1: one converter with type-only input; 2..4 competing inputs in every order; optional reverse converter
C07a == { Scn("C07a", F(<<L("a", "T2", "")>>, <<>>), ins, cs) :
            ins \in UNION {PermSeqs(S) : S \in {x \in SUBSET C07Inputs : L("a", "T1", "") \in x /\ Cardinality(x) >= 2 /\ Cardinality(x) <= (IF Size = 1 THEN 3 ELSE 4)}},
            cs \in UNION {{<<F(<<L("", "T1", "")>>, <<o>>)>>, <<F(<<L("", "T1", "")>>, <<o>>), C07Rev>>, <<C07Rev, F(<<L("", "T1", "")>>, <<o>>)>>} : o \in C07ConvOut} }
\* clause 2: a name-using converter (a:T1)->T2 and a purely type-only converter (T1)->T2, both registration orders
C07b == { Scn("C07b", F(<<L("a", "T2", "")>>, <<>>), ins, cs) :
            ins \in UNION {PermSeqs(S) : S \in {x \in SUBSET C07Inputs : L("a", "T1", "") \in x /\ Cardinality(x) <= 3}},
            cs \in UNION {PermSeqs(S) : S \in {{F(<<L("a", "T1", "")>>, <<L("", "T2", "")>>), F(<<L("", "T1", "")>>, <<L("", "T2", "")>>)},
                                                {F(<<L("a", "T1", "")>>, <<L("", "T2", "")>>), F(<<L("", "T1", "")>>, <<L("", "T2", "")>>), C07Rev}}} }
\* two named parameters converted from the same supplied type: each conversion must take the value
\* that carries the parameter's own name (distinct target types, so each parameter has one converter)
C07c == { Scn("C07c", F(<<L("a", "T2", ""), L("b", "T3", "")>>, <<>>), ins, cs) :
            ins \in UNION {PermSeqs(S) : S \in {{L("a", "T1", ""), L("b", "T1", "")}, {L("a", "T1", ""), L("b", "T1", ""), L("c", "T1", "")}}},
            cs \in UNION {PermSeqs(S) : S \in {{F(<<L("", "T1", "")>>, <<L("", "T2", "")>>), F(<<L("", "T1", "")>>, <<L("", "T3", "")>>)},
                                                {F(<<L("a", "T1", "")>>, <<L("", "T2", "")>>), F(<<L("", "T1", "")>>, <<L("", "T3", "")>>)},
                                                {F(<<L("", "T1", "")>>, <<L("a", "T2", "")>>), F(<<L("", "T1", "")>>, <<L("", "T3", "")>>)}}} }
\* two named parameters of the same type produced by ONE type-only converter (executed once per parameter)
C07d == { Scn("C07c", F(<<L("a", "T2", ""), L("b", "T2", "")>>, <<>>), ins, <<F(<<L("", "T1", "")>>, <<L("", "T2", "")>>)>>) :
            ins \in UNION {PermSeqs(S) : S \in {{L("a", "T1", ""), L("b", "T1", "")}, {L("a", "T1", ""), L("b", "T1", ""), L("c", "T1", "")}}} }
\* the same-named value carries a subtype
C07e == { Scn("C07a", F(<<L("a", "T2", "")>>, <<>>), ins, <<F(<<L("", "T1", "")>>, <<o>>)>>) :
            ins \in UNION {PermSeqs(S) : S \in {{L("a", "T1", "s"), L("b", "T1", "")}, {L("a", "T1", "s"), L("b", "T1", "t")},
                                                 {L("a", "T1", "s"), L("b", "T1", ""), L("c", "T1", "s")}}},
            o \in C07ConvOut }
\* a two-input converter (type-only T1, b:T3) whose second input must itself be converted from T1 by another
\* type-only converter: the nested conversion takes the value named b, the outer one still the value named a
C07X(o) == F(<<L("", "T1", ""), L("b", "T3", "")>>, <<o>>)
C07Y == F(<<L("", "T1", "")>>, <<L("", "T3", "")>>)
C07f == { Scn("C07f", F(<<L("a", "T2", "")>>, <<>>), ins, cs) :
            ins \in UNION {PermSeqs(S) : S \in {{L("a", "T1", ""), L("b", "T1", "")}, {L("a", "T1", ""), L("b", "T1", ""), L("c", "T1", "")}}},
            cs \in UNION {{<<C07X(o), C07Y>>, <<C07Y, C07X(o)>>} : o \in C07ConvOut} }
\* clause 2 with a name-using converter that needs further, directly supplied inputs (1 or 2 of them)
C07Extra == <<L("p", "T3", ""), L("q", "T4", "")>>
C07g == { Scn("C07g", F(<<L("a", "T2", "")>>, <<>>), ins, cs) :
            ins \in UNION {PermSeqs(S) : S \in {{L("a", "T1", ""), L("p", "T3", ""), L("q", "T4", "")}, {L("a", "T1", ""), L("b", "T1", ""), L("p", "T3", ""), L("q", "T4", "")}}},
            cs \in UNION {PermSeqs({F(<<L("a", "T1", "")>> \o SubSeq(C07Extra, 1, n), <<L("", "T2", "")>>), F(<<L("", "T1", "")>>, <<L("", "T2", "")>>)}) : n \in 1..2} }
\* a two-input converter that is ENTERED through its named input (f:T3, supplied directly) - its type-only input is then
\* looked for while the converter itself is being reached, where no name is at hand (known finding K1, see Contract!C07h)
C07h == { Scn("C07h", F(<<L("a", "T2", "")>>, <<>>), ins, <<F(<<L("f", "T3", ""), L("", "T1", "")>>, <<o>>)>>) :
            ins \in UNION {PermSeqs(S) : S \in {{L("a", "T1", ""), L("b", "T1", ""), L("f", "T3", "")}}},
            o \in C07ConvOut }
\* three and more values share the parameter's name: a same-named value of another type and subtype is supplied as well, or an
\* unrelated converter produces one (every same-named vertex gets the discount; the same-named T1 value is still the one converted)
C07i == { Scn("C07a", F(<<L("a", "T2", "")>>, <<>>), ins, cs) :
            ins \in UNION {PermSeqs(S) : S \in {{L("a", "T1", ""), L("b", "T1", ""), L("a", "T4", "x")}, {L("a", "T1", ""), L("b", "T1", ""), L("a", "T4", "x"), L("a", "T5", "y")}}},
            cs \in {<<F(<<L("", "T1", "")>>, <<o>>)>> : o \in C07ConvOut} }
        \cup { Scn("C07a", F(<<L("a", "T2", "")>>, <<>>), ins, cs) :
            ins \in UNION {PermSeqs(S) : S \in {{L("a", "T1", ""), L("b", "T1", ""), L("", "T3", "")}}},
            cs \in UNION {PermSeqs({F(<<L("", "T1", "")>>, <<o>>), F(<<L("", "T3", "")>>, <<L("a", "T5", "")>>), F(<<L("", "T3", "")>>, <<L("a", "T4", "x")>>)}) : o \in C07ConvOut} }
\* the same cause in another shape (also K1): the same-named value carries a subtype and some converter mentions the name
\* without one - the discounted detour through the subtype-less named vertex wins the path search, but no value is handed
\* from one named vertex to the next, so the typed argument is still empty when the converter is reached
C07hb == { Scn("C07hb", F(<<L("a", "T2", "")>>, <<>>), ins, cs) :
            ins \in PermSeqs({L("a", "T1", "j"), L("b", "T1", "")}),
            cs \in PermSeqs({F(<<L("", "T1", "")>>, <<L("", "T2", "")>>), F(<<L("a", "T1", "")>>, <<L("", "T4", "")>>)}) }
C07be == { Scn("C07b", F(<<L("a", "T2", "")>>, <<>>), ins, cs) :
            ins \in UNION {PermSeqs(S) : S \in {{L("a", "T1", "j"), L("b", "T1", "")}, {L("a", "T1", "j")}}},
            cs \in PermSeqs({F(<<L("a", "T1", "")>>, <<L("", "T2", "")>>), F(<<L("", "T1", "")>>, <<L("", "T2", "")>>)}) }
C07dp == { Scn("C07c", F(tp, <<>>), ins, <<FP(<<L("", "T1", "")>>, <<L("", "T2", "")>>)>>) :
            tp \in {<<L("a", "T2", ""), L("b", "T2", "")>>, <<L("a", "T2", ""), L("b", "T2", ""), L("c", "T2", "")>>},
            ins \in PermSeqs({L("a", "T1", ""), L("b", "T1", ""), L("c", "T1", "")}) }
C07Family == C07be \cup C07dp \cup C07a \cup C07b \cup C07c \cup C07d \cup C07e \cup C07f \cup C07g \cup C07h \cup C07hb \cup C07i

-----------------------------------------------------------------------------
\* single-input converter digraphs over three types: every subset of the six type-only converters
\* Ti -> Tj (i # j), optionally with named ends
Tys == {"T1", "T2", "T3"}
Pairs == {p \in Tys \X Tys : p[1] # p[2]}
TConv(p) == F(<<L("", p[1], "")>>, <<L("", p[2], "")>>)
Digraphs(maxE) == {Q({TConv(p) : p \in E}) : E \in SubsetsUpTo(Pairs, maxE)}

\* C05a: completeness on single-input converter sets, cycles included
C05Targets == {<<L("", "T1", "")>>, <<L("a", "T1", "")>>, <<L("", "T1", "s")>>, <<L("a", "T1", ""), L("", "T2", "")>>}
C05Inputs == {<<L("", "T3", "")>>, <<L("a", "T3", "")>>, <<L("", "T2", "s")>>, <<L("b", "T2", ""), L("", "T3", "")>>}
C05Family == { Scn("C05", F(t, <<>>), ins, cs) : t \in C05Targets, ins \in C05Inputs, cs \in Digraphs(IF Size = 1 THEN 3 ELSE 6) }

\* single-input converters between NAMED values with cross-named sources (the shape of F17): every subset
\* of six converters, sources named after the other chain, targets on either end of the 2-cycle
XConvs == << F(<<L("", "T3", "")>>, <<L("a", "T1", "")>>), F(<<L("", "T4", "")>>, <<L("b", "T2", "")>>),
             F(<<L("a", "T1", "")>>, <<L("b", "T2", "")>>), F(<<L("b", "T2", "")>>, <<L("a", "T1", "")>>),
             F(<<L("", "T3", "")>>, <<L("b", "T2", "")>>), F(<<L("a", "T1", "")>>, <<L("", "T4", "")>>) >>
XFamily == { Scn("C05", F(t, <<>>), ins, [i \in 1..Cardinality(S) |-> XConvs[Q(S)[i]]]) :
               t \in {<<L("b", "T2", "")>>, <<L("a", "T1", "")>>, <<L("a", "T1", ""), L("b", "T2", "")>>},
               ins \in {<<L("b", "T3", ""), L("a", "T4", "")>>, <<L("a", "T3", ""), L("b", "T4", "")>>, <<L("", "T3", ""), L("", "T4", "")>>,
                        <<L("b", "T3", "")>>, <<L("a", "T4", "")>>},
               S \in {x \in SUBSET (1..6) : Cardinality(x) >= 2 /\ Cardinality(x) <= (IF Size = 1 THEN 4 ELSE 6)} }

\* C08: Redefine over single-input converter digraphs x every input filter x output filters
C08Targets == {<<L("", "T1", "")>>, <<L("a", "T1", "")>>, <<L("", "T1", ""), L("b", "T2", "")>>}
C08Inputs == {<<>>, <<L("", "T3", "")>>, <<L("a", "T1", "")>>, <<L("", "T1", "")>>, <<L("b", "T2", ""), L("", "T3", "")>>}
C08Filters == {<<FALSE, <<>>>>} \cup {<<TRUE, Q(S)>> : S \in SUBSET Tys}
C08Family == { [Scn("C08", [F(t, o) EXCEPT !.form = "pos"], ins, cs) EXCEPT !.mode = "redefine", !.hasFilter = fl[1], !.filterIn = fl[2], !.filterOut = fo] :
                 t \in C08Targets, o \in {<<>>, <<L("", "T3", "")>>}, ins \in C08Inputs,
                 cs \in Digraphs(IF Size = 1 THEN 2 ELSE 4), fl \in C08Filters, fo \in (IF Size = 1 THEN {"none", "reject"} ELSE {"none", "accept", "reject"}) }

\* known finding K2: a NAMED parameter of interface type that Redefine hands on as a declared input (the redefined function
\* passes the value on under its dynamic type, which the named interface parameter does not accept)
C08k == { [Scn("C08k", [F(t, <<>>) EXCEPT !.form = "struct"], ins, <<>>) EXCEPT !.mode = "redefine"] :
            t \in {<<L("a", "I1", "")>>, <<L("a", "I1", ""), L("", "T2", "")>>}, ins \in {<<>>, <<L("", "T2", "")>>} }

-----------------------------------------------------------------------------
\* C02 / C13 / C06: multi-input converters with unreachable prerequisites, mutual and self cycles
M2(a, b, o) == FP(<<L("", a, "")>>  \o <<L("", b, "")>>, <<L("", o, "")>>)
CycleConvs == { <<M2("T2", "T4", "T1"), M2("T1", "T4", "T2")>>,                       \* mutual 2-cycle
                <<M2("T2", "T4", "T1"), M2("T3", "T4", "T2"), M2("T1", "T4", "T3")>>,   \* 3-cycle
                <<M2("T1", "T4", "T1")>>,                                               \* self cycle
                <<M2("T2", "T5", "T1")>>,                                               \* second input missing
                <<M2("T2", "T4", "T1"), TConv(<<"T3", "T2">>)>>,
                <<M2("T2", "T4", "T1"), TConv(<<"T1", "T2">>)>>,                        \* needs own output through a converter
                <<M2("T2", "T4", "T1"), M2("T1", "T4", "T2"), TConv(<<"T3", "T2">>)>>,  \* cycle with an exit
                <<FP(<<L("", "T1", ""), L("", "T1", "")>>, <<L("", "T2", "")>>)>> }       \* positional, repeated type
CycleTargets == {<<L("", "T1", "")>>, <<L("", "T2", "")>>, <<L("a", "T1", "")>>, <<L("", "T1", ""), L("", "T3", "")>>}
CycleInputs == {<<>>, <<L("", "T4", "")>>, <<L("", "T3", ""), L("", "T4", "")>>, <<L("", "T1", ""), L("", "T4", "")>>, <<L("a", "T2", ""), L("", "T4", "")>>}
CycleFamily == { Scn("cycle", FP(t, <<>>), ins, cs) : t \in CycleTargets, ins \in CycleInputs, cs \in CycleConvs }

\* C04: chains, diamonds and multi-input shapes x every subset of converters failing
ChainShapes == { <<FE(<<L("", "T2", "")>>, <<L("", "T1", "")>>, FALSE)>>,
                 <<FE(<<L("", "T2", "")>>, <<L("", "T1", "")>>, FALSE), FE(<<L("", "T3", "")>>, <<L("", "T2", "")>>, FALSE)>>,
                 <<FE(<<L("", "T2", "")>>, <<L("", "T1", "")>>, FALSE), FE(<<L("", "T3", "")>>, <<L("", "T2", "")>>, FALSE),
                   FE(<<L("", "T4", "")>>, <<L("", "T3", "")>>, FALSE)>>,
                 <<FE(<<L("", "T2", ""), L("", "T3", "")>>, <<L("", "T1", "")>>, FALSE), FE(<<L("", "T4", "")>>, <<L("", "T2", "")>>, FALSE),
                   FE(<<L("", "T4", "")>>, <<L("", "T3", "")>>, FALSE)>>,                \* diamond
                 <<FE(<<L("a", "T2", "")>>, <<L("a", "T1", ""), L("", "T5", "")>>, FALSE), FE(<<>>, <<L("a", "T2", "")>>, FALSE)>> }
WithFailing(cs, S) == [i \in DOMAIN cs |-> [cs[i] EXCEPT !.fails = i \in S]]
C04Family == { Scn("C04", FE(t, <<>>, tf), <<L("", "T4", "")>>, WithFailing(cs, S)) :
                 t \in {<<L("", "T1", "")>>, <<L("a", "T1", "")>>, <<L("", "T1", ""), L("", "T4", "")>>},
                 tf \in BOOLEAN, cs \in ChainShapes, S \in SUBSET (1..3) }

-----------------------------------------------------------------------------
\* the matching table itself: every (requirement, provision) pair over a small label universe, the
\* provision either supplied directly or produced by a parameterless provider
MatchU == {L(n, t, s) : n \in {"", "a", "b"}, t \in {"T1", "I1"}, s \in {"", "s", "t"}}
          \cup {L(n, "I12", s) : n \in {"", "a"}, s \in {"", "s"}}      \* an interface that implements I1 (and T2 implements it)
\* unnamed types: the struct type U1, the pointer type P1 = *T1 and T1 itself are three types (P1 and T1 share their element
\* type, U1 and T1 their underlying type; none of P1, U1 has a name of its own)
MatchU2 == {L(n, t, s) : n \in {"", "a"}, t \in {"U1", "P1", "T1"}, s \in {"", "s"}}
MatchFamily2 == { Scn("match", F(<<rq>>, <<>>), <<pv>>, <<>>) : rq \in MatchU2, pv \in MatchU2 }
                \cup { Scn("match", F(<<rq>>, <<>>), <<>>, <<F(<<>>, <<pv>>)>>) : rq \in MatchU2, pv \in MatchU2 }
                \cup { Scn("match", F(<<rq, L("b", "T2", "")>>, <<>>), <<pv, L("b", "T2", "")>>, <<>>) : rq \in MatchU2, pv \in MatchU2 }
\* L1 and L2 are two types that PRINT the same name: nothing but the type itself tells them apart
MatchU3 == {L(n, t, "") : n \in {"", "a"}, t \in {"L1", "L2"}}
MatchFamily3 == { Scn("match", F(<<rq>>, <<>>), <<pv>>, <<>>) : rq \in MatchU3, pv \in MatchU3 }
                \cup { Scn("match", F(<<rq>>, <<>>), ins, <<>>) : rq \in MatchU3, ins \in {<<L("", "L1", ""), L("", "L2", "")>>, <<L("", "L2", ""), L("", "L1", "")>>, <<L("a", "L1", ""), L("a", "L2", "s")>>} }
                \cup { Scn("match", F(<<rq>>, <<>>), <<>>, <<F(<<>>, <<pv>>)>>) : rq \in MatchU3, pv \in MatchU3 }
\* a value walked earlier must not stand in for a requirement of another subtype deeper in the resolution: C needs T3 (supplied)
\* and T1:t, whose only producer P lacks T4 - the call must be refused although a T1:s has been handed to the target before
StaleFamily == { Scn("stale", F(tp, <<>>), ins, cs) :
                   tp \in {<<L("", "T1", "s"), L("x", "T2", "")>>, <<L("x", "T2", ""), L("", "T1", "s")>>},
                   ins \in {<<L("", "T1", "s"), L("", "T3", "")>>, <<L("", "T3", ""), L("", "T1", "s")>>},
                   cs \in PermSeqs({F(<<L("", "T3", ""), L("", "T1", "t")>>, <<L("x", "T2", "")>>), F(<<L("", "T3", ""), L("", "T4", "")>>, <<L("", "T1", "t")>>)}) }
\* a diamond below a two-input converter (acyclic, every converter satisfiable): A (T1,T2)->T3, B T3->T4, C (T3,T4)->T5 - A is
\* needed twice, once directly and once through B; and two chained single-input converters over named values that are fed
\* by same-named values with a subtype
DiamondFamily == { Scn("diamond", F(<<L("", "T5", "")>>, <<>>), ins, cs) :
                     ins \in PermSeqs({L("", "T1", ""), L("", "T2", "")}),
                     cs \in PermSeqs({FP(<<L("", "T1", ""), L("", "T2", "")>>, <<L("", "T3", "")>>), FP(<<L("", "T3", "")>>, <<L("", "T4", "")>>),
                                      FP(<<L("", "T3", ""), L("", "T4", "")>>, <<L("", "T5", "")>>)}) }
                 \cup { Scn("diamond", F(<<L("", "T3", "")>>, <<>>), <<L("a", "T1", "x")>>, cs) :
                     cs \in PermSeqs({F(<<L("a", "T1", "")>>, <<L("b", "T2", "y")>>), F(<<L("b", "T2", "")>>, <<L("", "T3", "")>>)}) }
\* a two-way conversion through an INTERFACE type: the supplied value is of a concrete type that implements it, a converter
\* takes the interface and another one produces it (an interface-typed vertex that is itself produced must still be fed by
\* the values that implement it)
IfaceCycleFamily == { Scn("ifacecycle", F(<<L("", tt, "")>>, <<>>), <<pv>>, cs) :
                        tt \in {"I1", "T3"}, pv \in {L("", "T1", ""), L("", "T2", ""), L("a", "T1", "")},
                        cs \in PermSeqs({FP(<<L("", "I1", "")>>, <<L("", "T3", "")>>), FP(<<L("", "T3", "")>>, <<L("", "I1", "")>>)}) }
\* one name all the way: a named (and subtyped) input, single-input converters between values of that same name (a chain, or a
\* two-way conversion) and a target parameter of that name - every edge on the way carries the same-name discount, so the
\* distances of the search are NEGATIVE from the second vertex on (a search that mistrusts negative sums loses the path)
NameChainFamily == { Scn("namechain", F(<<L("a", tt, "")>>, <<>>), <<L("a", "T1", s)>> \o extra, cs) :
                       tt \in {"T2", "T3"}, s \in {"", "s"}, extra \in {<<>>, <<L("b", "T1", "")>>},
                       cs \in UNION {PermSeqs(q) : q \in {{F(<<L("a", "T1", "")>>, <<L("a", "T2", "")>>), F(<<L("a", "T2", "")>>, <<L("a", "T3", "")>>)},
                                                          {F(<<L("a", "T1", "")>>, <<L("a", "T2", "")>>), F(<<L("a", "T2", "")>>, <<L("a", "T1", "")>>),
                                                           F(<<L("a", "T2", "")>>, <<L("a", "T3", "")>>)}}} }
\* a converter whose Go signature is the target's own (a function vertex is identified by its type: the two collapse)
SameSigFamily == { Scn("samesig", f, ins, <<f>> \o more) :
                     f \in {FP(<<L("", "T1", "")>>, <<L("", "T2", "")>>), F(<<L("a", "T1", "")>>, <<L("", "T2", "")>>)},
                     ins \in {<<L("", "T1", "")>>, <<L("a", "T1", "")>>, <<L("", "T3", "")>>, <<L("", "T1", ""), L("", "T3", "")>>},
                     more \in {<<>>, <<FP(<<L("", "T3", "")>>, <<L("", "T1", "")>>)>>} }
MatchFamily == { Scn("match", F(<<rq>>, <<>>), <<pv>>, <<>>) : rq \in MatchU, pv \in {x \in MatchU : x.type = "T1"} }
               \cup MatchFamily2 \cup MatchFamily3 \cup StaleFamily \cup SameSigFamily
               \cup { Scn("match", F(<<rq>>, <<>>), <<>>, <<F(<<>>, <<pv>>)>>) : rq \in MatchU, pv \in MatchU }
               \cup { Scn("match", F(<<rq>>, <<>>), <<L("", "T2", "")>>, <<F(<<L("", "T2", "")>>, <<pv>>)>>) : rq \in MatchU, pv \in MatchU }

-----------------------------------------------------------------------------
\* result lists in which a named and a type-only result share their type (and subtype): every consumer
\* must receive the result that was declared for it, never its same-typed sibling
OutSets == {{L("a", "T1", ""), L("", "T1", "")}, {L("a", "T1", "s"), L("", "T1", "s")}, {L("a", "T1", "s"), L("", "T1", "")},
            {L("a", "T1", ""), L("", "T1", ""), L("b", "T2", "")}, {L("a", "T1", ""), L("b", "T1", "")}}
OutTargets == {<<L("b", "T1", "")>>, <<L("", "T1", "")>>, <<L("a", "T1", "")>>, <<L("a", "T1", ""), L("b", "T1", "")>>,
               <<L("b", "T1", ""), L("", "T1", "")>>, <<L("c", "T1", "s")>>}
\* two type-only results of ONE type that differ in their subtype: only the last declared one can be delivered (the results
\* are mapped back by type alone); whoever asks for the other one is refused, never handed its sibling's value
OutSets2 == {{L("", "T1", "s"), L("", "T1", "t")}, {L("", "T1", "s"), L("", "T1", "")}, {L("", "T1", "s"), L("", "T1", "t"), L("a", "T1", "s")}}
OutTargets2 == {<<L("", "T1", "s")>>, <<L("", "T1", "t")>>, <<L("a", "T1", "s")>>, <<L("", "T1", "s"), L("", "T1", "t")>>, <<L("", "T1", "")>>}
OutFamily2 == { Scn("out", F(t, <<>>), ins, <<F(<<>>, os)>>) : t \in OutTargets2, os \in UNION {PermSeqs(S) : S \in OutSets2},
                  ins \in {<<>>, <<L("", "T1", "s")>>, <<L("", "T2", "")>>} }
OutFamily == OutFamily2 \cup { Scn("out", F(t, <<>>), <<>>, <<F(<<>>, os)>>) : t \in OutTargets, os \in UNION {PermSeqs(S) : S \in OutSets} }
             \cup { Scn("out", F(t, <<>>), <<L("", "T3", "")>>, <<F(<<L("", "T3", "")>>, os)>>) : t \in OutTargets, os \in UNION {PermSeqs(S) : S \in OutSets} }

-----------------------------------------------------------------------------
\* labels are triples, not strings: a name or subtype may contain "/" and the printed type.  The parameter
\* (a/scn.t7, T7, x) and the value (a, T7, scn.t7/x) - and the like - have nothing in common but their type
SlashLabels == {L("a/scn.t7", "T7", "x"), L("a", "T7", "scn.t7/x"), L("a/scn.t7/scn.t7", "T7", ""), L("a", "T7", "scn.t7/scn.t7/")}
SlashFamily == { Scn("slash", F(<<p>>, <<>>), <<v>>, <<>>) : p \in SlashLabels, v \in SlashLabels }
               \cup { Scn("slash", F(<<p>>, <<>>), <<>>, <<F(<<>>, <<v>>)>>) : p \in SlashLabels, v \in SlashLabels }

-----------------------------------------------------------------------------
\* C10: Convert to every kind of target type from every kind of provision (directly supplied, produced by a provider,
\* produced by a converter from a supplied T3), interfaces that implement wider / narrower interfaces included
C10Types == {"T1", "T2", "P1", "U1", "I1", "I2", "I12"}
C10Scn(t, ins, cs) == [Scn("c10", [F(<<L("", t, "")>>, <<L("", t, "")>>) EXCEPT !.form = "pos"], ins, cs) EXCEPT !.mode = "convcall"]
C10Family == { C10Scn(t, <<L("", pv, "")>>, <<>>) : t \in C10Types, pv \in {"T1", "T2", "P1", "U1"} }
             \cup { C10Scn(t, <<>>, <<FP(<<>>, <<L("", pv, "")>>)>>) : t \in C10Types, pv \in C10Types }
             \cup { C10Scn(t, <<L("", "T3", "")>>, <<FP(<<L("", "T3", "")>>, <<L("", pv, "")>>)>>) : t \in C10Types, pv \in C10Types }
             \cup { C10Scn(t, <<L("", "T3", "")>>, <<FP(<<L("", "T3", "")>>, <<L("", mid, "")>>), FP(<<L("", mid, "")>>, <<L("", pv, "")>>)>>) :
                       t \in {"I1", "T1"}, mid \in {"I12", "I2", "T2"}, pv \in {"I1", "I12", "T1", "T2"} }

-----------------------------------------------------------------------------
\* C16: option processing.  Exact-key targets; every arrangement of the supplied values in which keys
\* repeat (the last occurrence must win), every default/call split, nil values, a nil option.
\* (name casing is varied by the harness at the API and in the struct tags)
\* ("xuml" stands for a name with a non-ASCII letter: the harness spells it with a u-umlaut, in both cases)
C16Params == {L("a", "T1", ""), L("", "T2", ""), L("b", "T4", "s"), L("", "T3", "s"), L("xuml", "T1", "")}
C16Targets == {<<p>> : p \in C16Params} \cup {<<p, q>> : p \in {L("a", "T1", ""), L("b", "T4", "s")}, q \in {L("", "T2", ""), L("", "T3", "s")}}
\* arrangements of a multiset given as a sequence (positions are distinct, so every order appears)
Arrangements(ms) == {[i \in DOMAIN ms |-> ms[p[i]]] : p \in PermSeqs(DOMAIN ms)}
C16Multisets(t) == IF Len(t) = 1 THEN {<<t[1]>>, <<t[1], t[1]>>, <<t[1], t[1], t[1]>>, <<t[1], t[1], L("c", "T5", "")>>}
                   ELSE {<<t[1], t[2]>>, <<t[1], t[1], t[2]>>, <<t[1], t[2], t[2]>>} \cup (IF Size = 1 THEN {} ELSE {<<t[1], t[1], t[2], t[2]>>})
\* same name, different subtypes: distinct keys that share the name slot of the option maps
C16Sub == { [Scn("C16", F(<<L("b", "T4", "s")>>, <<>>), ins, <<>>) EXCEPT !.ndef = nd] :
              ins \in Arrangements(<<L("b", "T4", "s"), L("b", "T5", "t"), L("b", "T1", "u")>>) \cup Arrangements(<<L("b", "T4", "s"), L("b", "T4", "t")>>)
                     \cup Arrangements(<<L("b", "T4", "s"), L("b", "T4", "S")>>),       \* (subtypes are case sensitive: two keys)
              nd \in 0..3 }
\* a typed nil pointer as the last value for a key (see Contract!C16)
C16Nil == UNION { { [Scn("C16", F(<<p>>, <<>>), ins, <<>>) EXCEPT !.ndef = nd, !.bad = "typednil"] :
                      ins \in {<<>>, <<p>>, <<p, p>>}, nd \in 0..2 } : p \in {L("a", "P1", ""), L("", "P1", ""), L("a", "P1", "s"), L("", "P1", "s")} }
\* a target without parameters: its options are processed all the same (a nil option is an error)
C16NoParam == { [Scn("C16", F(<<>>, <<>>), ins, <<>>) EXCEPT !.bad = bad] : ins \in {<<>>, <<L("a", "T1", "")>>}, bad \in {"", "nilarg", "nilvalue"} }
\* option values reused by a later call: a value option is an object of its own, using it together with another one (same
\* Go type, other subtype) must not change what it carries (family "C16reuse": the second call gets the FIRST option only)
C16Reuse == { Scn("C16reuse", F(<<p>>, <<>>), ins, <<>>) :
                p \in {L("", "T3", "t"), L("b", "T3", "t")},
                ins \in {<<L("", "T3", "s"), L("", "T3", "t")>>, <<L("b", "T3", "s"), L("b", "T3", "t")>>, <<L("", "T3", "s"), L("b", "T3", "t")>>} }
C16Family == C16Sub \cup C16Nil \cup C16NoParam \cup C16Reuse \cup UNION { { [Scn("C16", F(t, <<>>), ins, <<>>) EXCEPT !.ndef = nd, !.bad = bad] :
                         ins \in UNION {Arrangements(ms) : ms \in C16Multisets(t)},
                         nd \in 0..3, bad \in {"", "nilvalue", "nilarg"} } : t \in C16Targets }

-----------------------------------------------------------------------------
FamilyScenarios == CASE Family = "C03" -> C03Family \cup SameSigFamily
                     [] Family = "C07" -> C07Family
                     [] Family = "C05" -> C05Family \cup CycleFamily \cup MatchFamily \cup XFamily \cup DiamondFamily \cup NameChainFamily \cup IfaceCycleFamily
                     [] Family = "C08" -> C08Family \cup C08k
                     [] Family = "C02" -> CycleFamily \cup C05Family \cup MatchFamily \cup XFamily \cup DiamondFamily \cup NameChainFamily \cup IfaceCycleFamily
                     [] Family = "C06" -> CycleFamily \cup C04Family \cup NameChainFamily
                     [] Family = "C04" -> C04Family
                     [] Family = "C13" -> CycleFamily \cup MatchFamily \cup SlashFamily
                     [] Family = "C01" -> C03Family \cup CycleFamily \cup MatchFamily \cup OutFamily \cup SlashFamily
                     [] Family = "C10" -> C10Family
                     [] Family = "C15" -> OutFamily \cup MatchFamily
                     [] Family = "C16" -> {x \in C16Family : x.ndef <= Len(x.inputs)}
                     [] OTHER -> {}

\* number the family (sids above 1000000 so that they cannot clash with the random scenarios)
Numbered == LET q == TLCEval(SetToSeq(FamilyScenarios)) IN {[q[i] EXCEPT !.sid = 1000000 + i] : i \in DOMAIN q}
AllScenarios == Numbered \cup MCScenarios

EmitScn == (outcome.kind = "build" /\ scn.sid >= 1000000) => PrintT(<<"SCN", ToJson(scn)>>)

\* C07 as a design-level invariant (the contract formula lives in Contract.tla)
M_C07 == CI!C07
M_C07h == CI!C07h
\* (the model has no notion of a typed nil value: those scenarios are judged on the real traces only)
M_C16 == scn.bad # "typednil" => CI!C16
=============================================================================
