------------------------------ MODULE GraphADT ------------------------------
(***************************************************************************)
(* internal/graph.Graph as the code implements it: a handle is three       *)
(* references to map objects (adjacencyOut, adjacencyIn, hash); Copy       *)
(* allocates three fresh objects, Reverse returns a handle that shares     *)
(* all three with out/in swapped.  Every method is one action.             *)
(*                                                                         *)
(* An adjacency object is [dom, e]: dom = keys that have a row (inner      *)
(* map), e[a][b] = weight of the entry or 0.  The plain adjacency model    *)
(* the property refers to is the projection Obs below.                     *)
(* AddEdge* with an endpoint that is not in the graph does nothing (as     *)
(* documented; before the repair of F20 the code wrote into a nil inner    *)
(* map: a panic, after half of the edge had been written).                 *)
(***************************************************************************)
EXTENDS Naturals, Sequences, FiniteSets, TLC

CONSTANTS Keys, Vers, Weights, MaxHandles

VARIABLES adj,     \* adj[o] : [dom : SUBSET Keys, e : [Keys -> [Keys -> Weights \cup {0}]]]
          hash,    \* hash[o] : [Keys -> Vers \cup {0}]     (0 = absent)
          handles  \* <<[out, inn, h]>>  object ids
gvars == <<adj, hash, handles>>

NoEdges == [a \in Keys |-> [b \in Keys |-> 0]]
EmptyAdj == [dom |-> {}, e |-> NoEdges]
EmptyHash == [k \in Keys |-> 0]

\* var g Graph; the maps of a zero Graph are allocated on first use - after the repair of F11 Reverse
\* allocates them too, so a handle always denotes three existing objects
GInit == /\ adj = <<EmptyAdj, EmptyAdj>>
         /\ hash = <<EmptyHash>>
         /\ handles = <<[out |-> 1, inn |-> 2, h |-> 1]>>

H(i) == handles[i]

\* Add / AddOverwrite (graph.go:27-53): the row test is on adjacencyOut only
AddV(i, k, ver, overwrite) ==
  /\ hash' = [hash EXCEPT ![H(i).h][k] = IF overwrite \/ k \notin adj[H(i).out].dom THEN ver ELSE @]
  /\ adj' = IF k \in adj[H(i).out].dom THEN adj
            ELSE [adj EXCEPT ![H(i).out] = [dom |-> @.dom \cup {k}, e |-> [@.e EXCEPT ![k] = [b \in Keys |-> 0]]],
                             ![H(i).inn] = [dom |-> @.dom \cup {k}, e |-> [@.e EXCEPT ![k] = [b \in Keys |-> 0]]]]
  /\ UNCHANGED handles

CanAddE(i, a, b) == a \in adj[H(i).out].dom /\ b \in adj[H(i).inn].dom
\* AddEdge / AddEdgeWeighted (103-116)
AddE(i, a, b, w) ==
  /\ adj' = IF ~CanAddE(i, a, b) THEN adj
            ELSE IF H(i).out = H(i).inn
            THEN [adj EXCEPT ![H(i).out].e = [[@ EXCEPT ![a][b] = w] EXCEPT ![b][a] = w]]
            ELSE [adj EXCEPT ![H(i).out].e[a][b] = w, ![H(i).inn].e[b][a] = w]
  /\ UNCHANGED <<hash, handles>>

\* RemoveEdge (118-123): deletes on missing rows are no-ops
RemE(i, a, b) ==
  /\ adj' = [adj EXCEPT ![H(i).out].e[a][b] = 0, ![H(i).inn].e[b][a] = 0]
  /\ UNCHANGED <<hash, handles>>

\* Remove (56-80): out-neighbours are found through the out map, in-neighbours through the in map
RemV(i, k) ==
  LET o == H(i).out  n == H(i).inn
      outN == {b \in Keys : adj[o].e[k][b] # 0}
      inN  == {a \in Keys : adj[n].e[k][a] # 0}
      \* step 1: for out := range out[k] : delete(in[out], k) ; delete(out, k)
      n1 == [dom |-> adj[n].dom, e |-> [x \in Keys |-> [y \in Keys |-> IF x \in outN /\ y = k THEN 0 ELSE adj[n].e[x][y]]]]
      o1 == [dom |-> adj[o].dom \ {k}, e |-> [x \in Keys |-> [y \in Keys |-> IF x = k THEN 0 ELSE adj[o].e[x][y]]]]
      \* step 2: for in := range in[k] : delete(out[in], k) ; delete(in, k)     (in[k] read after step 1)
      inN2 == {a \in Keys : n1.e[k][a] # 0}
      o2 == [dom |-> o1.dom, e |-> [x \in Keys |-> [y \in Keys |-> IF x \in inN2 /\ y = k THEN 0 ELSE o1.e[x][y]]]]
      n2 == [dom |-> n1.dom \ {k}, e |-> [x \in Keys |-> [y \in Keys |-> IF x = k THEN 0 ELSE n1.e[x][y]]]]
  IN /\ adj' = [adj EXCEPT ![o] = o2, ![n] = n2]
     /\ hash' = [hash EXCEPT ![H(i).h][k] = 0]
     /\ UNCHANGED handles

\* Copy (164-189)
Copy(i) ==
  /\ Len(handles) < MaxHandles
  /\ adj' = adj \o <<adj[H(i).out], adj[H(i).inn]>>
  /\ hash' = Append(hash, hash[H(i).h])
  /\ handles' = Append(handles, [out |-> Len(adj) + 1, inn |-> Len(adj) + 2, h |-> Len(hash) + 1])

\* Reverse (154-162)
Reverse(i) ==
  /\ Len(handles) < MaxHandles
  /\ handles' = Append(handles, [out |-> H(i).inn, inn |-> H(i).out, h |-> H(i).h])
  /\ UNCHANGED <<adj, hash>>

GNext == \E i \in DOMAIN handles :
           \/ \E k \in Keys, v \in Vers, ow \in BOOLEAN : AddV(i, k, v, ow)
           \/ \E a, b \in Keys, w \in Weights : AddE(i, a, b, w)
           \/ \E a, b \in Keys : RemE(i, a, b)
           \/ \E k \in Keys : RemV(i, k)
           \/ Copy(i)
           \/ Reverse(i)
GSpec == GInit /\ [][GNext]_gvars

-----------------------------------------------------------------------------
\* the plain adjacency model observed through a handle
OutMap(i) == adj[H(i).out]
InMap(i) == adj[H(i).inn]
Obs(i) == [verts  |-> {<<k, hash[H(i).h][k]>> : k \in {x \in Keys : hash[H(i).h][x] # 0}},
           orows  |-> OutMap(i).dom,
           irows  |-> InMap(i).dom,
           oedges |-> {<<a, b, OutMap(i).e[a][b]>> : a, b \in Keys} \ {<<a, b, 0>> : a, b \in Keys},
           iedges |-> {<<a, b, InMap(i).e[a][b]>> : a, b \in Keys} \ {<<a, b, 0>> : a, b \in Keys}]

\* ---- C19 as invariants of the design
\* successors and predecessors are exactly the mirror of one another
Mirror == \A i \in DOMAIN handles : \A a, b \in Keys : OutMap(i).e[a][b] = InMap(i).e[b][a]
\* removing a vertex removes all its incident edges: edges only among present vertices
EdgesAmongPresent == \A i \in DOMAIN handles : \A a, b \in Keys :
                        OutMap(i).e[a][b] # 0 => (a \in OutMap(i).dom /\ b \in OutMap(i).dom)
\* the three maps agree on which vertices exist
DomAgree == \A i \in DOMAIN handles : OutMap(i).dom = InMap(i).dom /\ OutMap(i).dom = {k \in Keys : hash[H(i).h][k] # 0}

\* ---- C19 as action properties
\* (that re-adding / overwriting keeps edges and that the last weight wins is what the actions AddV / AddE
\* say; the real code is held to them step by step by GraphTrace.tla)
\* Copy shares no object with anything older; Reverse shares all three and reversing twice is the identity
CopyFresh == [][Len(handles') > Len(handles) =>
                  LET n == handles'[Len(handles')] IN
                  \/ \A j \in DOMAIN handles : {n.out, n.inn} \cap {H(j).out, H(j).inn} = {} /\ n.h # H(j).h   \* a copy
                  \/ \E j \in DOMAIN handles : n.out = H(j).inn /\ n.inn = H(j).out /\ n.h = H(j).h]_gvars      \* a reversed view
ReverseTwice == \A i, j, k \in DOMAIN handles :
                  (H(j).out = H(i).inn /\ H(j).inn = H(i).out /\ H(j).h = H(i).h /\
                   H(k).out = H(j).inn /\ H(k).inn = H(j).out /\ H(k).h = H(j).h) => Obs(k) = Obs(i)
=============================================================================
