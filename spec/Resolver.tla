------------------------------ MODULE Resolver ------------------------------
(***************************************************************************)
(* What the code does: a faithful, "written to be bound" model of          *)
(* Func.Call / Convert / Redefine (call.go, redefine.go):                  *)
(*   fold options -> build call graph -> prune -> report unsatisfied ->    *)
(*   reachTarget (recursive; here an explicit stack of frames):            *)
(*     Plan   per missing requirement: discount same-named values, run     *)
(*            Dijkstra on the reversed graph (ALL tie-breaks), take the    *)
(*            predecessor chain as the path, refuse paths through a        *)
(*            function that is being resolved; Redefine: record and zero   *)
(*            the first vertex of each path                                *)
(*     Walk   copy values vertex by vertex in the exact statement order    *)
(*            of call.go, recurse into function vertices                   *)
(*     CallDirect  run-once cache, missing-argument guard, execution,      *)
(*            outputs mapped back by name / by type                        *)
(* All nondeterminism of the code (Go map iteration order, heap order      *)
(* among equal keys) appears as: the order of the requirements and the     *)
(* Dijkstra outcome chosen per requirement.  TLC explores all of it.       *)
(* Values are provenance tokens: supplied values are 1..n in scenario      *)
(* order, every output of every execution gets the next number - the Go    *)
(* harness numbers identically, so logs are comparable.                    *)
(***************************************************************************)
EXTENDS CallGraph, ShortestPath, Json

CONSTANT Scenarios      \* the set of scenario records explored (defined by the MC_* modules)

VARIABLES scn,      \* the scenario
          G,        \* pruned call graph [V, E]
          val,      \* Value field of every vertex (token, 0 = invalid)
          frames,   \* stack of reachTarget activations
          csv,      \* callState.Value
          log,      \* executions of user bodies
          toks,     \* token table: <<[type, src]>>
          outcome,  \* [kind, missing, inputs, errid]
          iset,     \* callState.InputSet (Redefine)
          once,     \* memoized results of run-once functions: set of [fn, outs, fails, errid]
          PS        \* candidate paths per requirement vertex (function of the graph, computed once)
vars == <<scn, G, val, frames, csv, log, toks, outcome, iset, once, PS>>

Redef == scn.mode = "redefine"
Assignable(tok, t) == tok # 0 /\ (toks[tok].type = t \/ <<toks[tok].type, t>> \in Impl)

OutEdges(v) == OutEdgesOf(G, v)
InEdges(v)  == InEdgesOf(G, v)

NewFrame(fn) == [fn |-> fn, phase |-> "plan", paths |-> <<>>, pi |-> 0, pos |-> 0, argMap |-> {}, finalV |-> 0]
Top == frames[Len(frames)]
SetTop(f) == [frames EXCEPT ![Len(frames)] = f]
Out0 == [kind |-> "run", missing |-> {}, inputs |-> {}, errid |-> 0]
Outc(k) == [Out0 EXCEPT !.kind = k]

Perms(S) == {s \in [1..Cardinality(S) -> S] : \A i, j \in 1..Cardinality(S) : i # j => s[i] # s[j]}
RECURSIVE PathChoices(_, _)
PathChoices(P, order) == IF order = <<>> THEN {<<>>}
                          ELSE {<<p>> \o rest : p \in P[Head(order)], rest \in PathChoices(P, Tail(order))}
InPath(p, v) == \E i \in DOMAIN p : p[i] = v

\* reachTarget lines 377-401: candidate paths for requirement cur over all Dijkstra tie-breaks
Discount(H, name) == [V |-> H.V, E |-> {IF e[2].k = "val" /\ e[2].name = name THEN <<e[1], e[2], WName>> ELSE e : e \in H.E}]
\* Only the vertices from which cur can be reached in the searched (reversed) graph can influence
\* the distance and predecessor of cur and of its ancestors, so the tie-breaks are enumerated on
\* that sub-graph (everything cur transitively depends on, following requirement -> provider edges).
RECURSIVE DependsOn(_, _, _)
DependsOn(H, seen, frontier) ==
  IF frontier = {} THEN seen
  ELSE LET nxt == {e[2] : e \in {x \in H.E : x[1] \in frontier}} \ seen
       IN DependsOn(H, seen \cup nxt, nxt)
Relevant(H, cur) == LET keep == DependsOn(H, {cur}, {cur}) \cup {Root}
                    IN [V |-> keep, E |-> {e \in H.E : e[1] \in keep /\ e[2] \in keep}]
Paths(H, cur) == LET D == IF cur.k = "val" THEN Discount(Relevant(H, cur), cur.name) ELSE Relevant(H, cur)
                     g == TLCEval(IG(D, TRUE, Root))
                     ci == CHOOSE i \in 1..g.N : g.seq[i] = cur
                 IN {PathI(g, s.prev, ci, g.N) : s \in DijkstraOutcomes(g)}
InputOf(p) == IF p[1].k = "root" /\ Len(p) > 1 THEN p[2] ELSE p[1]

-----------------------------------------------------------------------------
\* Init only picks the scenario; Build (a separate action, so that TLC's workers share the work)
\* folds the options, builds and prunes the graph and reports pruned requirements (call.go:56-316).
\* PS caches, per requirement vertex, the candidate paths over all Dijkstra tie-breaks: they depend
\* on the graph only, which no later step changes.
Init ==
  /\ scn \in Scenarios
  /\ G = [V |-> {}, E |-> {}] /\ val = <<>> /\ toks = <<>> /\ PS = <<>>
  /\ outcome = Outc("build") /\ frames = <<>>
  /\ csv = 0 /\ log = <<>> /\ iset = {} /\ once = {}

Build ==
  /\ outcome.kind = "build"
  /\ LET FG == TLCEval(FullGraph(scn))
         P == TLCEval(Pruned(FG))
         missing == Unsatisfied(scn, P)
         reqs == {e[2] : e \in {x \in P.E : x[1].k = "fn" /\ x[2].k \in {"val", "arg"}}}
     IN /\ G' = P
        /\ val' = [v \in P.V |-> InputTok(scn, v)]
        /\ toks' = [j \in DOMAIN scn.inputs |-> [type |-> scn.inputs[j].type, src |-> 0, z |-> FALSE]]
        /\ IF scn.bad \in {"nilarg", "nonfunc", "nilconv"} \/ GenError(scn)   \* args.go: a nil / failing option, a generator error
           THEN outcome' = Outc("bugerr") /\ frames' = <<>> /\ PS' = <<>>
           ELSE IF Redef /\ scn.filterOut = "reject" /\ scn.target.out # <<>>     \* redefineOutputs runs first
           THEN outcome' = Outc("redeferr") /\ frames' = <<>> /\ PS' = <<>>
           ELSE IF missing # {}
           THEN /\ outcome' = [Outc("unsat") EXCEPT !.missing = missing]
                /\ frames' = <<>>
                /\ PS' = <<>>
           ELSE LET ps == TLCEval([c \in reqs |-> Paths(P, c)]) IN
                IF \E c \in reqs : ps[c] = {}                 \* tie-break enumeration gave up (ShortestPath!LevelLimit)
                THEN outcome' = Outc("toobig") /\ frames' = <<>> /\ PS' = <<>>
                ELSE /\ outcome' = Out0
                     /\ frames' = <<NewFrame(Fn(0))>>
                     /\ PS' = ps
  /\ UNCHANGED <<scn, csv, log, iset, once>>

\* reachTarget, lines 341-451
Plan ==
  /\ outcome.kind = "run" /\ frames # <<>> /\ Top.phase = "plan"
  /\ LET outs == OutEdges(Top.fn)
         \* typed arguments that hold a value are taken as they are; since the repair of F17 named values too
         skipArgs == {v \in outs : v.k = "arg" /\ val[v] # 0}
                     \cup (IF "F17" \in Bugs THEN {} ELSE {v \in outs : v.k = "val" /\ val[v] # 0})
         skipped == skipArgs \cup {v \in outs : v.k = "root"}
         T == {v \in outs : v.k # "root"} \ skipArgs
         am0 == {<<v, val[v]>> : v \in skipArgs}
         iset0 == IF "F7" \in Bugs THEN iset \cup skipped ELSE iset
     IN IF T = {} THEN /\ frames' = SetTop([Top EXCEPT !.phase = "ret", !.argMap = am0])
                       /\ iset' = iset0
                       /\ UNCHANGED <<outcome, val, toks>>
        ELSE \* lines 395-412: a named value that was given directly satisfies itself (repair of F15);
             \* everything else takes the predecessor chain of the Dijkstra run
             LET PSe == [c \in T |-> IF "F15" \notin Bugs /\ c.k = "val" /\ val[c] # 0 /\ Root \in OutEdges(c)
                                     THEN {<<Root, c>>} ELSE PS[c]] IN
             \E order \in Perms(T) :
             \E ps \in PathChoices(PSe, order) :
               LET n == Cardinality(T)
                   busy == IF "F3" \in Bugs THEN {Top.fn} ELSE {frames[q].fn : q \in 1..Len(frames)}
                   unsat == {order[i] : i \in {j \in 1..n : \E b \in busy : InPath(ps[j], b)}}
                   ins == {InputOf(ps[i]) : i \in 1..n}
                   zs == IF Redef THEN {v \in ins : (v.k = "val" /\ val[v] = 0) \/ v.k = "arg"} ELSE {}
                   zseq == SetToSeq(zs)
                   n0 == Len(toks)
               IN /\ iset' = iset0 \cup ins
                  /\ toks' = toks \o [k \in 1..Len(zseq) |-> [type |-> zseq[k].type, src |-> 0 - 1, z |-> TRUE]]
                  /\ val' = [v \in DOMAIN val |-> IF v \in zs THEN n0 + (CHOOSE k \in 1..Len(zseq) : zseq[k] = v) ELSE val[v]]
                  /\ IF unsat # {} THEN /\ outcome' = [Outc("unsat2") EXCEPT !.missing = unsat]
                                        /\ frames' = <<>>
                     ELSE /\ frames' = SetTop([Top EXCEPT !.phase = "walk", !.paths = ps, !.pi = 1, !.pos = 1, !.argMap = am0, !.finalV = 0])
                          /\ UNCHANGED outcome
  /\ UNCHANGED <<scn, G, csv, log, once, PS>>

CurPath == Top.paths[Top.pi]
CurV == CurPath[Top.pos]
PrevV == IF Top.pos > 1 THEN CurPath[Top.pos - 1] ELSE Nil
Advance(f) == [f EXCEPT !.pos = f.pos + 1]

\* reachTarget, lines 459-543: one path vertex
Walk ==
  /\ outcome.kind = "run" /\ frames # <<>> /\ Top.phase = "walk"
  /\ Top.pi <= Len(Top.paths) /\ Top.pos <= Len(CurPath)
  /\ LET v == CurV IN
     CASE v.k = "root" -> /\ frames' = SetTop(Advance(Top)) /\ UNCHANGED <<val, csv>>
       [] v.k = "val" ->
            LET nv == IF PrevV.k = "out" THEN val[PrevV] ELSE val[v] IN
            /\ csv' = IF "F2" \in Bugs THEN val[v] ELSE nv
            /\ val' = [val EXCEPT ![v] = nv]
            /\ frames' = SetTop(Advance([Top EXCEPT !.finalV = IF nv # 0 THEN nv ELSE Top.finalV]))
       [] v.k = "arg" ->
            LET nv == IF csv # 0 /\ Assignable(csv, v.type) THEN csv ELSE val[v] IN
            /\ val' = [val EXCEPT ![v] = nv]
            /\ frames' = SetTop(Advance([Top EXCEPT !.finalV = nv]))
            /\ UNCHANGED csv
       [] v.k = "out" ->
            LET nv == IF PrevV.k = "out" THEN val[PrevV] ELSE val[v] IN
            /\ val' = [val EXCEPT ![v] = nv]
            /\ csv' = nv
            /\ frames' = SetTop(Advance(Top))
       [] v.k = "fn" ->
            /\ frames' = Append(SetTop([Top EXCEPT !.phase = "wait"]), NewFrame(v))
            /\ UNCHANGED <<val, csv>>
  /\ UNCHANGED <<scn, G, log, toks, outcome, iset, once, PS>>

Lookup(am, v) == IF \E p \in am : p[1] = v THEN (CHOOSE p \in am : p[1] = v)[2] ELSE 0
HasKey(am, v) == \E p \in am : p[1] = v
ExecRec(id, f, args, outs, failed, eid) ==
  [fn |-> id, fin |-> f.in, fout |-> f.out, args |-> args, outs |-> outs, fails |-> failed, errid |-> eid, phase |-> 1]

\* outputValues (func.go:316-336): named outputs by name, typed outputs by type only
WithOutputs(fnv, f, outsT) ==
  [x \in G.V |->
     IF x \in InEdges(fnv) THEN
        IF x.k = "val" /\ \E j \in DOMAIN f.out : f.out[j].name = x.name
           THEN outsT[CHOOSE j \in DOMAIN f.out : f.out[j].name = x.name]
        ELSE IF x.k = "out" /\ \E j \in DOMAIN f.out : f.out[j].name = "" /\ f.out[j].type = x.type
           THEN outsT[Max({j \in DOMAIN f.out : f.out[j].name = "" /\ f.out[j].type = x.type})]
        ELSE val[x]
     ELSE val[x]]

\* a converter's arguments are complete: callDirect (563-610) + outputValues, back in the parent's walk
ReturnToParent ==
  /\ outcome.kind = "run" /\ Len(frames) >= 2 /\ Top.phase = "ret"
  /\ LET child == Top
         parent == frames[Len(frames) - 1]
         f == Funcs(scn)[child.fn.id]
         args == [j \in DOMAIN f.in |-> Lookup(child.argMap, ReqVertex(f.in[j]))]
         missing == \E j \in DOMAIN f.in : ~HasKey(child.argMap, ReqVertex(f.in[j]))
         cached == {c \in once : c.fn = child.fn.id}
         popped == SubSeq(frames, 1, Len(frames) - 1)
         Resume == [popped EXCEPT ![Len(popped)] = Advance([parent EXCEPT !.phase = "walk"])]
     IN \* the argument check comes first (repair of F16), then the memoized result of a run-once function
        IF missing /\ ("F16" \notin Bugs \/ ~(f.once /\ cached # {} /\ ~Redef))
        THEN /\ outcome' = Outc("bugerr") /\ frames' = <<>> /\ UNCHANGED <<val, log, toks, once>>
        ELSE IF f.once /\ cached # {} /\ ~Redef
        THEN LET c == CHOOSE c \in cached : TRUE IN
             /\ UNCHANGED <<log, toks, once>>
             /\ IF c.fails THEN outcome' = [Outc("converr") EXCEPT !.errid = c.errid] /\ frames' = <<>> /\ UNCHANGED val
                ELSE val' = WithOutputs(child.fn, f, c.outs) /\ frames' = Resume /\ UNCHANGED outcome
        ELSE LET n0 == Len(toks)
                 outsT == [j \in DOMAIN f.out |-> n0 + j]
                 eid == Len(log) + 1
                 failed == f.fails /\ ~Redef
             IN /\ log' = IF Redef THEN log ELSE Append(log, ExecRec(child.fn.id, f, args, outsT, failed, IF failed THEN eid ELSE 0))
                \* a converter returning a nil struct pointer delivers zero values (valid values, marked z)
                /\ toks' = toks \o [j \in DOMAIN f.out |-> [type |-> f.out[j].type, src |-> child.fn.id, z |-> f.nilOut]]
                /\ once' = IF f.once /\ ~Redef THEN once \cup {[fn |-> child.fn.id, outs |-> outsT, fails |-> failed, errid |-> eid]} ELSE once
                /\ IF failed THEN outcome' = [Outc("converr") EXCEPT !.errid = eid] /\ frames' = <<>> /\ UNCHANGED val
                   ELSE val' = WithOutputs(child.fn, f, outsT) /\ frames' = Resume /\ UNCHANGED outcome
  /\ UNCHANGED <<scn, G, csv, iset, PS>>

\* reachTarget, lines 545-554
EndPath ==
  /\ outcome.kind = "run" /\ frames # <<>> /\ Top.phase = "walk"
  /\ Top.pi <= Len(Top.paths) /\ Top.pos > Len(CurPath)
  /\ IF Top.finalV = 0 THEN /\ outcome' = Outc("panic_final") /\ frames' = <<>>
     ELSE /\ frames' = SetTop([Top EXCEPT !.argMap = {p \in Top.argMap : p[1] # CurPath[Len(CurPath)]} \cup {<<CurPath[Len(CurPath)], Top.finalV>>},
                                          !.pi = Top.pi + 1, !.pos = 1, !.finalV = 0])
          /\ UNCHANGED outcome
  /\ UNCHANGED <<scn, G, val, csv, log, toks, iset, once, PS>>

EndWalk ==
  /\ outcome.kind = "run" /\ frames # <<>> /\ Top.phase = "walk" /\ Top.pi > Len(Top.paths)
  /\ frames' = SetTop([Top EXCEPT !.phase = "ret"])
  /\ UNCHANGED <<scn, G, val, csv, log, toks, outcome, iset, once, PS>>

\* redefine.go:157-200: the inputs of the redefined function
RedefInputs ==
  {x \in iset : /\ x.k \in {"val", "arg"} /\ x \notin InputVerts(scn)
                /\ ~("F8" \notin Bugs /\ x.k = "arg" /\ Out(x.type, x.sub) \in InputVerts(scn))}

\* the target's arguments are complete: Call -> callDirect(target);  Redefine -> build the input struct
ExecTarget ==
  /\ outcome.kind = "run" /\ Len(frames) = 1 /\ Top.phase = "ret"
  /\ IF Redef
     THEN LET ri == RedefInputs
              dup == \E a, b \in ri : a # b /\ a.k = "val" /\ b.k = "val" /\ a.name = b.name
          IN /\ outcome' = IF dup THEN Outc(IF "F12" \in Bugs THEN "panic_dup" ELSE "redeferr")
                           \* as coded (redefine.go:172-196): the struct fields built for the new inputs carry no
                           \* subtype tag, so the redefined function declares them without subtype
                           ELSE [Outc("redef") EXCEPT !.inputs = {[name |-> v.name, type |-> v.type, sub |-> "", k |-> v.k] : v \in ri}]
             /\ UNCHANGED <<log, toks>>
     ELSE LET f == scn.target
              args == [j \in DOMAIN f.in |-> Lookup(Top.argMap, ReqVertex(f.in[j]))]
              missing == \E j \in DOMAIN f.in : ~HasKey(Top.argMap, ReqVertex(f.in[j]))
              n0 == Len(toks)
              outsT == [j \in DOMAIN f.out |-> n0 + j]
              eid == Len(log) + 1
          IN IF missing THEN outcome' = Outc("bugerr") /\ UNCHANGED <<log, toks>>
             ELSE /\ outcome' = IF f.fails THEN [Outc("targeterr") EXCEPT !.errid = eid] ELSE Outc("ok")
                  /\ log' = Append(log, ExecRec(0, f, args, outsT, f.fails, IF f.fails THEN eid ELSE 0))
                  /\ toks' = toks \o [j \in DOMAIN f.out |-> [type |-> f.out[j].type, src |-> 0, z |-> FALSE]]
  /\ frames' = <<>>
  /\ UNCHANGED <<scn, G, val, csv, iset, once, PS>>

\* before the repair of F3 mutual recursion never ended; bounded here so that it is a reachable state
StackBound == Cardinality({v \in G.V : v.k = "fn"}) + 2
Overflow ==
  /\ outcome.kind = "run" /\ Len(frames) > StackBound
  /\ outcome' = Outc("overflow")
  /\ frames' = <<>>
  /\ UNCHANGED <<scn, G, val, csv, log, toks, iset, once, PS>>

Step == IF outcome.kind = "run" /\ Len(frames) > StackBound THEN Overflow
        ELSE Build \/ Plan \/ Walk \/ ReturnToParent \/ EndPath \/ EndWalk \/ ExecTarget

Done == outcome.kind \notin {"run", "build"}
Next == Step
Spec == Init /\ [][Next]_vars
FairSpec == Spec /\ WF_vars(Next)
Terminates == <>Done

-----------------------------------------------------------------------------
\* observable outcome in the harness's vocabulary
ObsKind == CASE outcome.kind \in {"unsat", "unsat2"} -> "unsat"
             [] outcome.kind = "bugerr" -> IF Redef THEN "redeferr" ELSE "othererr"
             [] outcome.kind \in {"panic_final", "panic_dup"} -> "panic"
             [] outcome.kind = "overflow" -> "crash"
             [] OTHER -> outcome.kind
IsConvert == scn.mode \in {"convert", "convcall"}
ObsLog == IF IsConvert THEN SelectSeq(log, LAMBDA e : e.fn # 0) ELSE log
\* the harness sees a zero struct as token 0 and a nil interface as -1
Disp(t) == IF t = 0 THEN 0 ELSE IF toks[t].z THEN (IF toks[t].type \in Ifaces THEN 0 - 1 ELSE 0) ELSE t
DispSeq(q) == [i \in DOMAIN q |-> Disp(q[i])]
Observation == [sid |-> scn.sid, kind |-> ObsKind,
                \* generated converters are named by their labels (their numbering follows map iteration in the real code)
                log |-> [i \in DOMAIN ObsLog |-> [fn |-> IF ObsLog[i].fn > Len(scn.convs)
                                                          THEN <<"g", ObsLog[i].fin[1].name, ObsLog[i].fin[1].type, ObsLog[i].fin[1].sub, ObsLog[i].fout[1].type>>
                                                          ELSE ObsLog[i].fn,
                                                   args |-> DispSeq(ObsLog[i].args), outs |-> DispSeq(ObsLog[i].outs)]],
                inputs |-> SetToSeq({[name |-> x.name, type |-> x.type, sub |-> x.sub] : x \in outcome.inputs}),
                valtok |-> IF IsConvert /\ outcome.kind = "ok" THEN Disp(log[Len(log)].args[1]) ELSE 0]
=============================================================================
