------------------------------ MODULE Sharing ------------------------------
(***************************************************************************)
(* C12 at the level of the design: which memory locations do concurrent    *)
(* calls touch when they share a target, converters and option values, and *)
(* can two of those accesses conflict (same location, at least one write,  *)
(* no common lock)?                                                        *)
(* Every call is a sequence of accesses; TLC interleaves the calls of G    *)
(* goroutines in every possible way and checks NoConflict in every state   *)
(* (two goroutines positioned at conflicting accesses at the same time).   *)
(* The locations are those the code has (read off call.go, args.go,        *)
(* func.go, value_set.go):                                                 *)
(*   optN      - the name variable captured by a NamedSubtype option       *)
(*   (F19: Redefine's by-value copy of a function reads onceRes)           *)
(*   callOpts  - the default option slice of the shared target (read only) *)
(*   onceRes   - Func.onceResult of a shared run-once converter            *)
(*   cachedOut - the backing array of the memoized Result.out              *)
(*   graph     - the call graph and call state: allocated per call         *)
(* Bugs switches the historical defects back on (F9: no lock around the    *)
(* memo; F10: the option closure writes its captured name; F6: the cached  *)
(* outputs are unwrapped in place).                                        *)
(* The module also enumerates the sharing configurations the harness runs  *)
(* under the Go race detector - the detector is the sensor for the real    *)
(* code, TLA+ cannot observe memory accesses.                              *)
(***************************************************************************)
EXTENDS Naturals, Sequences, FiniteSets, TLC, Json

CONSTANTS G, Bugs, ShareOpts, ShareConvs

Gs == 1..G
Acc(loc, kind, lock) == [loc |-> loc, kind |-> kind, lock |-> lock]
\* the accesses of one Call, in program order; g parametrises the private locations
Program(g) ==
  LET sh(x)  == <<x, 0>>                                   \* shared by everybody
      opt(x) == IF ShareOpts THEN <<x, 0>> ELSE <<x, g>>
      cv(x)  == IF ShareConvs THEN <<x, 0>> ELSE <<x, g>>
      none   == <<"none", 0>> IN
  << Acc(sh("callOpts"), "r", none),                                             \* func.go: argBuilder copies the defaults
     Acc(opt("optN"), IF "F10" \in Bugs THEN "w" ELSE "r", none),                 \* args.go: NamedSubtype closure
     Acc(<<"graph", g>>, "w", none),                                              \* callGraph / reachTarget: per call
     Acc(cv("onceRes"), "r", IF "F9" \in Bugs THEN none ELSE cv("onceMu")),       \* callDirect: memo check
     Acc(cv("onceRes"), "w", IF "F9" \in Bugs THEN none ELSE cv("onceMu")),       \* callDirect: memo store (first use)
     Acc(cv("cachedOut"), IF "F6" \in Bugs THEN "w" ELSE "r", none),              \* value_set.go: result()
     Acc(<<"graph", g>>, "w", none),
     \* redefine.go: Redefine copies every function of its graph by value (reads onceRes); since the repair of F19 under the lock
     Acc(cv("onceRes"), "r1", IF "F19" \in Bugs THEN none ELSE cv("onceMu")) >>

NoLock == <<"none", 0>>
VARIABLES pos, held    \* pos[g]: next access of g (1..Len+1); held: lock -> holder (0 free)
vars == <<pos, held>>
Locks == {a.lock : a \in UNION {{Program(g)[i] : i \in DOMAIN Program(g)} : g \in Gs}} \ {NoLock}
Init == pos = [g \in Gs |-> 1] /\ held = [k \in Locks |-> 0]
Cur(g) == Program(g)[pos[g]]
Active(g) == pos[g] <= Len(Program(g))
\* the once lock is held from the memo check to the memo store (two consecutive accesses)
Step(g) == /\ Active(g)
           /\ LET a == Cur(g) IN
              /\ (a.lock # NoLock => held[a.lock] \in (IF a.kind = "r1" THEN {0} ELSE {0, g}))
              /\ pos' = [pos EXCEPT ![g] = @ + 1]
              \* "r1": a single access under the lock (acquired and released within the step)
              /\ held' = IF a.lock = NoLock \/ a.kind = "r1" THEN held
                         ELSE IF a.kind = "w" THEN [held EXCEPT ![a.lock] = 0] ELSE [held EXCEPT ![a.lock] = g]
Next == \E g \in Gs : Step(g)
Spec == Init /\ [][Next]_vars

Conflict(a, b) == a.loc = b.loc /\ "w" \in {a.kind, b.kind} /\ (a.lock = NoLock \/ a.lock # b.lock)
\* (the hypothesis of SharingProof.tla: positions are positions)
PosOK == pos \in [Gs -> Nat \ {0}]
NoConflict == \A g, h \in Gs : (g # h /\ Active(g) /\ Active(h)) => ~Conflict(Cur(g), Cur(h))
=============================================================================
