---- MODULE GraphCore ----
\* Single-graph core of GraphADT (one out map, one in map, one vertex set) with Apalache type annotations.
\* Used by check C19 to discharge IndInv (mirror + edges only among present vertices) as an INDUCTIVE
\* invariant: it then holds after histories of ANY length over the bounded key set, which the bounded
\* TLC exploration of GraphADT cannot claim.  apalache-mc check --init=Init --inv=IndInv --length=0 and
\* --init=IndInit --inv=IndInv --length=1.
EXTENDS Integers, FiniteSets

Keys == {"a", "b", "c"}
Weights == {1, 2}

VARIABLES
  \* @type: Set(Str);
  dom,
  \* @type: <<Str, Str>> -> Int;
  outE,
  \* @type: <<Str, Str>> -> Int;
  innE

Pairs == Keys \X Keys

Init == /\ dom = {}
        /\ outE = [p \in Pairs |-> 0]
        /\ innE = [p \in Pairs |-> 0]

AddV(k) == dom' = dom \cup {k} /\ UNCHANGED <<outE, innE>>
AddE(a, b, w) == /\ a \in dom /\ b \in dom
                 /\ outE' = [outE EXCEPT ![<<a, b>>] = w]
                 /\ innE' = [innE EXCEPT ![<<b, a>>] = w]
                 /\ UNCHANGED dom
RemE(a, b) == /\ outE' = [outE EXCEPT ![<<a, b>>] = 0]
              /\ innE' = [innE EXCEPT ![<<b, a>>] = 0]
              /\ UNCHANGED dom
\* as coded: out-neighbours found through outE, in-neighbours through innE
RemV(k) == /\ dom' = dom \ {k}
           /\ outE' = [p \in Pairs |-> IF p[1] = k THEN 0 ELSE IF p[2] = k /\ innE[<<k, p[1]>>] # 0 THEN 0 ELSE outE[p]]
           /\ innE' = [p \in Pairs |-> IF p[1] = k THEN 0 ELSE IF p[2] = k /\ outE[<<k, p[1]>>] # 0 THEN 0 ELSE innE[p]]

Next == \/ \E k \in Keys : AddV(k)
        \/ \E a \in Keys, b \in Keys, w \in Weights : AddE(a, b, w)
        \/ \E a \in Keys, b \in Keys : RemE(a, b)
        \/ \E k \in Keys : RemV(k)

TypeOK == /\ dom \in SUBSET Keys
          /\ outE \in [Pairs -> {0, 1, 2}]
          /\ innE \in [Pairs -> {0, 1, 2}]
Mirror == \A a \in Keys, b \in Keys : outE[<<a, b>>] = innE[<<b, a>>]
Among == \A a \in Keys, b \in Keys : outE[<<a, b>>] # 0 => (a \in dom /\ b \in dom)
IndInv == TypeOK /\ Mirror /\ Among
IndInit == IndInv
====
