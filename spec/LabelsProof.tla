---------------------------- MODULE LabelsProof ----------------------------
(***************************************************************************)
(* The sandwich lemma of LabelsLemma.tla without a bound: for ALL labels   *)
(* (any names, types, subtypes - not only the harness universe)            *)
(*   MustMatch(r, p) => MayMatch(r, p),  both relations are reflexive,     *)
(*   and two different names never meet.  Checked by tlapm.                *)
(***************************************************************************)
EXTENDS Naturals, TLAPS

\* any implements-relation (Labels!Impl is one instance); the two definitions below are textually those of Labels.tla
\* (tlapm does not accept the RECURSIVE operators of that module; check.py compares the texts on every run)
CONSTANT Impl

MayMatch(req, prov) ==
  /\ (req.name # "" /\ prov.name # "") => req.name = prov.name
  /\ \/ req.type = prov.type /\ (req.sub = prov.sub \/ req.sub = "" \/ prov.sub = "")
     \/ <<prov.type, req.type>> \in Impl

MustMatch(req, prov) ==
  \/ /\ req.type = prov.type
     /\ CASE req.name = "" /\ req.sub = "" -> TRUE
          [] req.name = "" /\ req.sub # "" -> \/ (prov.name = "" /\ prov.sub \in {"", req.sub})
                                              \/ (prov.name # "" /\ prov.sub = req.sub)
          [] req.name # "" /\ req.sub = "" -> (prov.name = "" /\ prov.sub = "") \/ prov.name = req.name
          [] OTHER                         -> \/ (prov.name = "" /\ prov.sub = "")
                                              \/ (prov.name = req.name /\ prov.sub = req.sub)
  \/ /\ <<prov.type, req.type>> \in Impl /\ prov.name = ""    \* interfaces only from type-only providers

Label == [name : STRING, type : STRING, sub : STRING]

THEOREM MustImpliesMay == \A r, p \in Label : MustMatch(r, p) => MayMatch(r, p)
<1> SUFFICES ASSUME NEW r \in Label, NEW p \in Label, MustMatch(r, p) PROVE MayMatch(r, p)
  OBVIOUS
<1>1. CASE <<p.type, r.type>> \in Impl /\ p.name = ""
  BY <1>1 DEF MayMatch
<1>2. CASE r.type = p.type /\ r.name = "" /\ r.sub = ""
  BY <1>2 DEF MayMatch
<1>3. CASE r.type = p.type /\ r.name = "" /\ r.sub # ""
  BY <1>3 DEF MayMatch, MustMatch
<1>4. CASE r.type = p.type /\ r.name # "" /\ r.sub = ""
  BY <1>4 DEF MayMatch, MustMatch
<1>5. CASE r.type = p.type /\ r.name # "" /\ r.sub # ""
  BY <1>5 DEF MayMatch, MustMatch
<1> QED BY <1>1, <1>2, <1>3, <1>4, <1>5 DEF MustMatch

THEOREM Reflexive == \A r \in Label : MustMatch(r, r) /\ MayMatch(r, r)
  BY DEF MustMatch, MayMatch, Label

THEOREM NamesNeverCross == \A r, p \in Label : (r.name # "" /\ p.name # "" /\ r.name # p.name) => ~MayMatch(r, p) /\ ~MustMatch(r, p)
<1> SUFFICES ASSUME NEW r \in Label, NEW p \in Label, r.name # "", p.name # "", r.name # p.name PROVE ~MayMatch(r, p) /\ ~MustMatch(r, p)
  OBVIOUS
<1>1. ~MayMatch(r, p)
  BY DEF MayMatch
<1>2. ~MustMatch(r, p)
  BY DEF MustMatch
<1> QED BY <1>1, <1>2
=============================================================================
