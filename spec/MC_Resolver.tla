----------------------------- MODULE MC_Resolver -----------------------------
(***************************************************************************)
(* Model checking of the Resolver over a set of scenarios read from a JSON *)
(* file (seeded random scenarios written by the harness, or the output of  *)
(* a spec-enumerated family): every tie-break of every scenario is         *)
(* explored, the Contract invariants are checked on the model through the  *)
(* refinement mapping below, and every distinct terminal observation is    *)
(* emitted (one JSON line) so that the real code's observations can be     *)
(* compared with the model's outcome sets.                                 *)
(***************************************************************************)
EXTENDS Resolver

CONSTANT ScnFile
\* (TLCEval: parse the file once, not once per element)
MCScenarios == LET js == TLCEval(JsonDeserialize(ScnFile)) IN {js[i] : i \in DOMAIN js}

\* ---- refinement mapping into the contract layer
CRet == [ev |-> "ret", kind |-> ObsKind, errid |-> outcome.errid, phase |-> 1,
         missing |-> SetToSeq({LabelOfV(v) : v \in outcome.missing}), einputs |-> SetToSeq(Folded(scn.inputs)),
         econvs |-> [i \in DOMAIN scn.convs |-> i], msgok |-> TRUE, asok |-> ObsKind = "unsat",
         len |-> 0, outs |-> <<>>, lack |-> ObsKind \in {"unsat", "othererr"}, detail |-> "",
         valnil |-> ObsKind # "ok", valok |-> TRUE, valtok |-> IF IsConvert /\ outcome.kind = "ok" THEN log[Len(log)].args[1] ELSE 0]
CRets == IF Done /\ ~Redef THEN <<CRet>> ELSE <<>>
CRedef == IF Done /\ Redef
          THEN [ev |-> "redef", ok |-> outcome.kind = "redef",
                inputs |-> SetToSeq({[name |-> x.name, type |-> x.type, sub |-> x.sub] : x \in outcome.inputs}),
                given |-> <<>>, given2 |-> <<>>, toks |-> <<>>, toks3 |-> <<>>, execs |-> 0, detail |-> ""]
          ELSE [ev |-> "none", ok |-> FALSE, inputs |-> <<>>, given |-> <<>>, given2 |-> <<>>, toks |-> <<>>, toks3 |-> <<>>, execs |-> 0, detail |-> ""]

\* the scenario as the harness reports it: supplied value j carries token j, one use = phase 1
ScnC == [f \in DOMAIN scn \cup {"itoks", "phase0", "carry", "twinOf"} |->
           IF f = "itoks" THEN [j \in DOMAIN scn.inputs |-> j]
           ELSE IF f = "phase0" THEN 1 ELSE IF f = "carry" THEN FALSE ELSE IF f = "twinOf" THEN 0 ELSE scn[f]]
CGens == LET gl == GenList(scn) IN [k \in DOMAIN gl |-> [ev |-> "gen", fn |-> Len(scn.convs) + k, fin |-> gl[k].in, fout |-> gl[k].out]]
CI == INSTANCE Contract WITH scn <- ScnC, gens <- CGens, log <- log, rets <- CRets, redef <- CRedef, kinds <- {}

M_C01 == CI!C01
M_C02 == CI!C02
M_C03 == CI!C03
M_C04 == CI!C04
M_C05 == CI!C05
M_C06 == outcome.kind \notin {"panic_final", "panic_dup", "overflow"}
M_C08 == CI!C08
M_C13 == CI!C13
M_C10 == CI!C10

\* emission of every distinct terminal observation (evaluated once per distinct state)
EmitObs == Done => PrintT(<<"OBS", ToJson(Observation)>>)

\* keep the state space finite whatever the scenario does
DepthOK == Len(frames) <= StackBound + 1 /\ Len(log) <= 40
=============================================================================
