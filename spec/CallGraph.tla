------------------------------ MODULE CallGraph ------------------------------
(***************************************************************************)
(* The call graph of one Call / Redefine, as Func.callGraph builds it      *)
(* (call.go), one operator per code block.  Edges point from a             *)
(* requirement to what can provide it ("requirement -> provider"); the     *)
(* resolver searches the reversed graph from Root.                         *)
(*                                                                         *)
(* Deliberate oddities of the code are modelled as such:                   *)
(*  - a function vertex is identified by its Go func type, so converters   *)
(*    with identical signatures collapse into the first one registered;    *)
(*  - supplied values are folded through maps (one slot per key);          *)
(*  - AddEdgeWeighted overwrites, so a later block wins over an earlier.   *)
(* Bugs is the set of historical defects switched back on (empty = the     *)
(* tree as repaired; see known_findings.json).                             *)
(***************************************************************************)
EXTENDS Labels, Integers, FiniteSetsExt, SequencesExt, TLC

CONSTANT Bugs

WNormal == 1
WTyped  == 5
WOther  == 20
WName   == -1

Root      == [k |-> "root", name |-> "", type |-> "", sub |-> "", id |-> 0]
Val(n, t, s) == [k |-> "val", name |-> n, type |-> t, sub |-> s, id |-> 0]
Arg(t, s) == [k |-> "arg", name |-> "", type |-> t, sub |-> s, id |-> 0]
Out(t, s) == [k |-> "out", name |-> "", type |-> t, sub |-> s, id |-> 0]
Fn(i)     == [k |-> "fn", name |-> "", type |-> "", sub |-> "", id |-> i]
Nil       == [k |-> "nil", name |-> "", type |-> "", sub |-> "", id |-> 0]

ReqVertex(l)  == IF l.name = "" THEN Arg(l.type, l.sub) ELSE Val(l.name, l.type, l.sub)
ProvVertex(l) == IF l.name = "" THEN Out(l.type, l.sub) ELSE Val(l.name, l.type, l.sub)
LabelOfV(v)   == [name |-> v.name, type |-> v.type, sub |-> v.sub]

ReqVertex0(l)  == IF l.name = "" THEN [k |-> "arg", name |-> "", type |-> l.type, sub |-> l.sub, id |-> 0]
                  ELSE [k |-> "val", name |-> l.name, type |-> l.type, sub |-> l.sub, id |-> 0]
ProvVertex0(l) == IF l.name = "" THEN [k |-> "out", name |-> "", type |-> l.type, sub |-> l.sub, id |-> 0]
                  ELSE [k |-> "val", name |-> l.name, type |-> l.type, sub |-> l.sub, id |-> 0]
\* supplied functions of a scenario: 0 = target, i = converter i
BaseFuncs(scn) == [i \in 0..Len(scn.convs) |-> IF i = 0 THEN scn.target ELSE scn.convs[i]]

\* ---- converter generators (args.go:336-363).  A generator is shown every value / typed-output vertex that
\* exists once the supplied functions and inputs are in the graph (a snapshot: vertices added by generated
\* converters are not shown); the harness's generators answer for vertices of type `from` with a converter
\* from:<sub> -> to:<sub> that keeps the vertex's name and subtype (assembled with BuildFunc).
\* the results a function offers (func.go:graph ranges over output.namedValues and output.typedValues; the latter is
\* keyed by type alone, so of several type-only results of one type only the LAST declared one is offered)
AdvOut(f) == {j \in DOMAIN f.out : f.out[j].name # "" \/ ~\E k \in DOMAIN f.out : k > j /\ f.out[k].name = "" /\ f.out[k].type = f.out[j].type}

GenSnapshot(scn) ==
  LET F == BaseFuncs(scn) IN
  UNION { {ReqVertex0(F[i].in[j]) : j \in DOMAIN F[i].in}
          \cup (IF i = 0 THEN {} ELSE {ProvVertex0(F[i].out[j]) : j \in AdvOut(F[i])}) : i \in DOMAIN F }
  \cup {ProvVertex0(scn.inputs[j]) : j \in FoldedIdx(scn.inputs)}
GenFor(g, v) == [in |-> <<[name |-> v.name, type |-> g.from, sub |-> v.sub]>>, out |-> <<[name |-> v.name, type |-> g.to, sub |-> v.sub]>>,
                 form |-> "built", hasErr |-> TRUE, fails |-> FALSE, once |-> FALSE, nilOut |-> FALSE]
GenMatches(scn, g) == \E v \in GenSnapshot(scn) : v.k \in {"val", "out"} /\ v.type = g.from
\* a generator reporting an error makes the whole call fail (repair of F5a: formerly a panic)
GenError(scn) == \E k \in DOMAIN scn.gens : scn.gens[k].mode = "err" /\ GenMatches(scn, scn.gens[k])
GenList(scn) ==
  TLCEval(SetToSeq(UNION { {GenFor(scn.gens[k], v) : v \in {x \in GenSnapshot(scn) : x.k \in {"val", "out"} /\ x.type = scn.gens[k].from}}
                           : k \in {x \in DOMAIN scn.gens : scn.gens[x].mode = "conv"} }))
\* all functions: 0 = target, 1..n supplied converters, n+1.. generated converters (in a canonical order: the
\* real generation order follows map iteration; generated functions are identified by their labels)
Funcs(scn) == LET gl == GenList(scn) IN
              [i \in 0..(Len(scn.convs) + Len(gl)) |->
                 IF i = 0 THEN scn.target ELSE IF i <= Len(scn.convs) THEN scn.convs[i] ELSE gl[i - Len(scn.convs)]]

\* ---- func-type identity (graph.go: funcVertex.Hashcode = fn.Type()) ----
PlainLs(ls) == \A j \in DOMAIN ls : ls[j].name = "" /\ ls[j].sub = ""
SideForm(ls, form) == IF Len(ls) = 0 THEN "none"
                      ELSE IF form = "built" THEN "built"
                      ELSE IF form = "pos" /\ PlainLs(ls) THEN "pos"
                      ELSE IF form = "ptr" THEN "ptr" ELSE "struct"
GoType(f) == <<f.in, f.out, SideForm(f.in, f.form), SideForm(f.out, f.form), f.hasErr \/ f.form = "built">>
\* the vertex a function is represented by = the first function registered with the same Go type
\* (the target is registered first)
FnId(scn, i) == LET F == Funcs(scn) IN Min({j \in 0..i : GoType(F[j]) = GoType(F[i])})
FnV(scn, i) == Fn(FnId(scn, i))

\* ---- supplied values after option folding (args.go: argBuilder, graph) ----
InputVerts(scn) == {ProvVertex(scn.inputs[j]) : j \in FoldedIdx(scn.inputs)}
\* token (= index) of the supplied value a vertex holds; 0 = none
InputTok(scn, v) == IF \E j \in FoldedIdx(scn.inputs) : ProvVertex(scn.inputs[j]) = v
                    THEN CHOOSE j \in FoldedIdx(scn.inputs) : ProvVertex(scn.inputs[j]) = v ELSE 0

\* ---- block 1: functions and inputs (func.go:graph, args.go:graph) ----
E1(scn) ==
  LET F == Funcs(scn) IN
  UNION { {<<FnV(scn, i), ReqVertex(F[i].in[j]), IF F[i].in[j].name = "" THEN WTyped ELSE WNormal>> : j \in DOMAIN F[i].in}
          \cup (IF Len(F[i].in) = 0 THEN {<<FnV(scn, i), Root, WNormal>>} ELSE {})
          \cup (IF i = 0 THEN {}
                ELSE {<<ProvVertex(F[i].out[j]), FnV(scn, i), IF F[i].out[j].name = "" THEN WTyped ELSE WNormal>> : j \in AdvOut(F[i])})
        : i \in DOMAIN F }
  \cup {<<v, Root, WNormal>> : v \in InputVerts(scn)}

VOf(E) == {e[1] : e \in E} \cup {e[2] : e \in E} \cup {Root, Fn(0)}

\* ---- block 2 (call.go:72-98): every value vertex can come from the typed output of its type, and
\*      can serve the typed argument of its type (and of its type+subtype)
E2(V) ==
  UNION {{<<v, Out(v.type, ""), WTyped>>, <<Arg(v.type, ""), v, WTyped>>}
         \cup (IF v.sub # "" THEN {<<Arg(v.type, v.sub), v, WTyped>>} ELSE {}) : v \in {x \in V : x.k = "val"}}
\* ---- block 3 (100-112): typed argument <- typed output of the same type and subtype
E3(V) == {<<v, Out(v.type, v.sub), WTyped>> : v \in {x \in V : x.k = "arg"}}
\* ---- block 4 (114-134): interface-typed outputs <- outputs of implementing types, subtype ignored
E4(V) == {e \in {<<v, v2, WTyped>> : v \in {x \in V : x.k = "out" /\ x.type \in Ifaces}, v2 \in {x \in V : x.k = "out"}} :
             /\ e[1] # e[2]
             /\ \/ <<e[2].type, e[1].type>> \in Impl
                \/ ("F14" \in Bugs /\ e[2].type = e[1].type)}
\* ---- block 5 (136-152): un-subtyped, not supplied named value <- same-named sub-typed value
E5(V, inp) == {e \in {<<v, v2, WTyped>> : v \in {x \in V : x.k = "val" /\ x.sub = "" /\ x \notin inp},
                                        v2 \in {x \in V : x.k = "val" /\ x.sub # ""}} :
                 e[1].type = e[2].type /\ ("F1" \in Bugs \/ e[1].name = e[2].name)}
\* ---- blocks 6,7 (154-188): typed argument <- typed output of the same type when exactly one has a subtype
E6(V) == {e \in {<<v, v2, WOther>> : v \in {x \in V : x.k = "arg"}, v2 \in {x \in V : x.k = "out"}} :
             e[1].type = e[2].type /\ ((e[1].sub = "" /\ e[2].sub # "") \/ (e[1].sub # "" /\ e[2].sub = ""))}
\* ---- block 8 (190-238), Redefine only: every value / typed argument the filter permits may be an input
FilterOK(scn, v) == ~scn.hasFilter \/ v.type \in Ran(scn.filterIn) \/ \E t \in Ran(scn.filterIn) : <<v.type, t>> \in Impl
E7(scn, V) == IF scn.mode = "redefine" THEN {<<v, Root, WNormal>> : v \in {x \in V : x.k \in {"val", "arg"} /\ FilterOK(scn, x)}} ELSE {}

Override(E, Enew) == {e \in E : ~\E n \in Enew : n[1] = e[1] /\ n[2] = e[2]} \cup Enew

\* (LET definitions are wrapped in TLCEval: TLC would otherwise re-evaluate the chain at every use)
FullGraph(scn) ==
  LET inp == TLCEval(InputVerts(scn))
      e1 == TLCEval(E1(scn))
      v1 == TLCEval(VOf(e1))
      e2 == TLCEval(Override(e1, E2(v1)))
      v2 == TLCEval(VOf(e2))
      e3 == TLCEval(Override(e2, E3(v2)))
      v3 == TLCEval(VOf(e3))
      e4 == TLCEval(Override(e3, E4(v3)))
      e5 == TLCEval(Override(e4, E5(v3, inp)))
      e6 == TLCEval(Override(e5, E6(v3)))
      e7 == TLCEval(Override(e6, E7(scn, v3)))
  IN [V |-> v3, E |-> e7]

\* ---- pruning (242-275): keep what is reachable from Root in the reversed graph, not descending past the target
RECURSIVE Reach(_, _, _)
Reach(G, seen, frontier) ==
  IF frontier = {} THEN seen
  ELSE LET nxt == {e[1] : e \in {x \in G.E : x[2] \in frontier /\ x[2] # Fn(0)}} \ seen
       IN Reach(G, seen \cup nxt, nxt)
Pruned(G) == LET keep == Reach(G, {Root}, {Root}) IN
   [V |-> keep, E |-> {e \in G.E : e[1] \in keep /\ e[2] \in keep}]

\* requirement vertices of the target that were pruned (278-316)
TargetReqs(scn) == {ReqVertex(scn.target.in[j]) : j \in DOMAIN scn.target.in}
Unsatisfied(scn, P) == TargetReqs(scn) \ P.V

\* every direct (function-free) hop chain of the graph is allowed by the matching table:
\* design-level statement behind C01, checked over the label universe by MC_Labels
OutEdgesOf(G, v) == {e[2] : e \in {x \in G.E : x[1] = v}}
InEdgesOf(G, v)  == {e[1] : e \in {x \in G.E : x[2] = v}}
=============================================================================
