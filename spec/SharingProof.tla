---------------------------- MODULE SharingProof ----------------------------
(***************************************************************************)
(* C12 at the level of the design, without a bound on the number of        *)
(* goroutines: with the repairs in place (Bugs = {}) no two accesses of    *)
(* the programs of two DIFFERENT goroutines conflict, whatever the sharing *)
(* configuration; hence NoConflict holds in every state of Sharing!Spec    *)
(* for every G (Safe).  Program, Conflict, Step are those of Sharing.tla with     *)
(* Bugs = {} substituted (check.py compares the texts on every run).       *)
(* Checked by tlapm.                                                       *)
(***************************************************************************)
EXTENDS Naturals, Sequences, TLAPS

CONSTANTS G, ShareOpts, ShareConvs
ASSUME GNat == G \in Nat
ASSUME ShareBool == ShareOpts \in BOOLEAN /\ ShareConvs \in BOOLEAN

Gs == 1..G
Acc(loc, kind, lock) == [loc |-> loc, kind |-> kind, lock |-> lock]
Program(g) ==
  LET sh(x)  == <<x, 0>>
      opt(x) == IF ShareOpts THEN <<x, 0>> ELSE <<x, g>>
      cv(x)  == IF ShareConvs THEN <<x, 0>> ELSE <<x, g>>
      none   == <<"none", 0>> IN
  << Acc(sh("callOpts"), "r", none),
     Acc(opt("optN"), "r", none),
     Acc(<<"graph", g>>, "w", none),
     Acc(cv("onceRes"), "r", cv("onceMu")),
     Acc(cv("onceRes"), "w", cv("onceMu")),
     Acc(cv("cachedOut"), "r", none),
     Acc(<<"graph", g>>, "w", none),
     Acc(cv("onceRes"), "r1", cv("onceMu")) >>

NoLock == <<"none", 0>>
Conflict(a, b) == a.loc = b.loc /\ "w" \in {a.kind, b.kind} /\ (a.lock = NoLock \/ a.lock # b.lock)

VARIABLES pos, held
vars == <<pos, held>>
Locks == {a.lock : a \in UNION {{Program(g)[i] : i \in DOMAIN Program(g)} : g \in Gs}} \ {NoLock}
Init == pos = [g \in Gs |-> 1] /\ held = [k \in Locks |-> 0]
Cur(g) == Program(g)[pos[g]]
Active(g) == pos[g] <= Len(Program(g))
Step(g) == /\ Active(g)
           /\ LET a == Cur(g) IN
              /\ (a.lock # NoLock => held[a.lock] \in (IF a.kind = "r1" THEN {0} ELSE {0, g}))
              /\ pos' = [pos EXCEPT ![g] = @ + 1]
              /\ held' = IF a.lock = NoLock \/ a.kind = "r1" THEN held
                         ELSE IF a.kind = "w" THEN [held EXCEPT ![a.lock] = 0] ELSE [held EXCEPT ![a.lock] = g]
Next == \E g \in Gs : Step(g)
Spec == Init /\ [][Next]_vars
NoConflict == \A g, h \in Gs : (g # h /\ Active(g) /\ Active(h)) => ~Conflict(Cur(g), Cur(h))
PosOK == pos \in [Gs -> Nat \ {0}]

LEMMA Len8 == \A g \in Nat : Len(Program(g)) = 8
  BY DEF Program

\* the static fact: accesses of different goroutines never conflict
THEOREM Static == \A g, h \in Nat \ {0} : g # h => \A i, j \in 1..8 : ~Conflict(Program(g)[i], Program(h)[j])
<1> SUFFICES ASSUME NEW g \in Nat \ {0}, NEW h \in Nat \ {0}, g # h, NEW i \in 1..8, NEW j \in 1..8
             PROVE ~Conflict(Program(g)[i], Program(h)[j])
  OBVIOUS
<1> USE ShareBool
<1>1. CASE ShareOpts /\ ShareConvs
  BY <1>1 DEF Program, Acc, Conflict, NoLock
<1>2. CASE ShareOpts /\ ~ShareConvs
  BY <1>2 DEF Program, Acc, Conflict, NoLock
<1>3. CASE ~ShareOpts /\ ShareConvs
  BY <1>3 DEF Program, Acc, Conflict, NoLock
<1>4. CASE ~ShareOpts /\ ~ShareConvs
  BY <1>4 DEF Program, Acc, Conflict, NoLock
<1> QED BY <1>1, <1>2, <1>3, <1>4

\* hence the state predicate of Sharing.tla holds wherever the positions are positions
THEOREM PosImplies == PosOK => NoConflict
<1> SUFFICES ASSUME PosOK, NEW g \in Gs, NEW h \in Gs, g # h, Active(g), Active(h)
             PROVE ~Conflict(Cur(g), Cur(h))
  BY DEF NoConflict
<1>1. g \in Nat \ {0} /\ h \in Nat \ {0}
  BY GNat DEF Gs
<1>2. pos[g] \in 1..8 /\ pos[h] \in 1..8
  BY <1>1, Len8 DEF PosOK, Active
<1> QED BY <1>1, <1>2, Static DEF Cur

\* ... and they always are
LEMMA PosInit == Init => PosOK
  BY DEF Init, PosOK
LEMMA PosNext == PosOK /\ [Next]_vars => PosOK'
<1> SUFFICES ASSUME PosOK, [Next]_vars PROVE PosOK'
  OBVIOUS
<1>1. ASSUME NEW g \in Gs, Step(g) PROVE PosOK'
  BY <1>1 DEF Step, PosOK
<1>2. CASE UNCHANGED vars
  BY <1>2 DEF vars, PosOK
<1> QED BY <1>1, <1>2 DEF Next

THEOREM Safe == Spec => []NoConflict
<1>1. Spec => []PosOK
  BY PosInit, PosNext, PTL DEF Spec
<1> QED BY <1>1, PosImplies, PTL
=============================================================================
