---------------------------- MODULE ShortestPath ----------------------------
(***************************************************************************)
(* All outcomes of internal/graph/dijkstra.go over all tie-breaks.         *)
(* One pop of the loop removes ANY unvisited vertex of minimum distance    *)
(* (container/heap order among equal keys and Go map order are not         *)
(* specified) and relaxes only unvisited neighbours with strict "<".       *)
(* No exactness is assumed: the resolver uses weight -1 edges, for which   *)
(* the visited set makes the result depend on the pop order.               *)
(* Evaluated level by level over a SET of (dist, prev, vis) records, so    *)
(* confluent pop orders are merged by set union.                           *)
(***************************************************************************)
EXTENDS Integers, Sequences, FiniteSets, FiniteSetsExt, SequencesExt, TLC

Inf == 1000000      \* stands for math.MaxInt32

\* indexed graph: vertices as a sequence, W[u][v] = weight of the edge u -> v or Inf
\* G = [V, E] with E a set of <<from, to, weight>>; reversed = TRUE searches the reversed graph
IG(G, reversed, src) ==
  LET seq == TLCEval(SetToSeq(G.V))
      N == Len(seq)
      W == TLCEval([u \in 1..N |-> [v \in 1..N |->
              LET es == IF reversed THEN {e \in G.E : e[2] = seq[u] /\ e[1] = seq[v]}
                                     ELSE {e \in G.E : e[1] = seq[u] /\ e[2] = seq[v]}
              IN IF es = {} THEN Inf ELSE (CHOOSE e \in es : TRUE)[3]]])
  IN [N |-> N, seq |-> seq, W |-> W, root |-> CHOOSE i \in 1..N : seq[i] = src]

StepI(g, s) ==
  LET unv == (1..g.N) \ s.vis
      m == Min({s.dist[v] : v \in unv})
      cands == {v \in unv : s.dist[v] = m}
      better(u, v) == v \notin s.vis /\ v # u /\ g.W[u][v] # Inf /\ s.dist[u] + g.W[u][v] < s.dist[v]
  IN { [dist |-> [v \in 1..g.N |-> IF better(u, v) THEN s.dist[u] + g.W[u][v] ELSE s.dist[v]],
        prev |-> [v \in 1..g.N |-> IF better(u, v) THEN u ELSE s.prev[v]],
        vis  |-> s.vis \cup {u}] : u \in cands }

RECURSIVE DJSet(_, _, _)
DJSet(g, S, n) == IF n = 0 THEN S ELSE DJSet(g, TLCEval(UNION {StepI(g, s) : s \in S}), n - 1)

DJInit(g) == [dist |-> [v \in 1..g.N |-> IF v = g.root THEN 0 ELSE Inf], prev |-> [v \in 1..g.N |-> 0], vis |-> {}]
\* reference definition: one pop per level
DijkstraOutcomesRef(g) == DJSet(g, {DJInit(g)}, g.N)

\* Batched evaluation (same result, far fewer intermediate records).  When every edge from a
\* minimum-distance candidate to an unvisited vertex weighs >= 1, no pop of a candidate can bring
\* any vertex to a distance <= the current minimum m, so the candidates are exactly the next pops,
\* in any order.  An improved vertex v ends with the best distance over the candidates and with
\* the FIRST-popped candidate among those achieving it (strict "<"); only the relative order of
\* candidates that share such a vertex matters, so only their permutations are enumerated.
RECURSIVE AcyclicRel(_, _)
AcyclicRel(R, nodes) ==
  IF nodes = {} THEN TRUE
  ELSE LET free == {n \in nodes : ~\E e \in R : e[2] = n /\ e[1] \in nodes}
       IN IF free = {} THEN FALSE ELSE AcyclicRel(R, nodes \ free)
\* all ways to pick one element of Af[v] for every v in vs, as sets of pairs <<v, u>>
RECURSIVE Picks(_, _)
Picks(vs, Af) == IF vs = {} THEN {{}}
                 ELSE LET v == CHOOSE x \in vs : TRUE
                      IN {{<<v, u>>} \cup r : u \in Af[v], r \in Picks(vs \ {v}, Af)}
BatchLimit == 512
BatchStep(g, s) ==
  LET unv == (1..g.N) \ s.vis
      m == Min({s.dist[v] : v \in unv})
      cands == {v \in unv : s.dist[v] = m}
      others == unv \ cands
      safe == \A u \in cands : \A v \in unv : g.W[u][v] = Inf \/ g.W[u][v] >= 1
      from(v) == {u \in cands : g.W[u][v] # Inf}
      best(v) == Min({m + g.W[u][v] : u \in from(v)} \cup {s.dist[v]})
      improved == {v \in others : best(v) < s.dist[v]}
      Af == [v \in improved |-> {u \in from(v) : m + g.W[u][v] = best(v)}]
      multi == {v \in improved : Cardinality(Af[v]) >= 2}
      \* a pick is realisable by some pop order iff "winner before the other achievers" is acyclic
      ok(pk) == AcyclicRel(UNION {{<<e[2], u>> : u \in Af[e[1]] \ {e[2]}} : e \in pk}, cands)
      size == IF multi = {} THEN 1 ELSE FoldSet(LAMBDA v, acc : IF acc > BatchLimit THEN acc ELSE acc * Cardinality(Af[v]), 1, multi)
  IN IF m = Inf \/ ~safe \/ size > BatchLimit THEN StepI(g, s)
     ELSE { [dist |-> [v \in 1..g.N |-> IF v \in improved THEN best(v) ELSE s.dist[v]],
             prev |-> [v \in 1..g.N |-> IF v \in improved
                                          THEN (IF v \in multi THEN (CHOOSE e \in pk : e[1] = v)[2] ELSE CHOOSE u \in Af[v] : TRUE)
                                          ELSE s.prev[v]],
             vis  |-> s.vis \cup cands] : pk \in {x \in Picks(multi, Af) : ok(x)} }

\* level-wise evaluation until every record has visited everything; gives up (returns {}) when the
\* number of records explodes - the caller treats that scenario as too big to enumerate
LevelLimit == 1500
RECURSIVE DJAll(_, _)
DJAll(g, S) == IF Cardinality(S) > LevelLimit THEN {}
               ELSE IF \A s \in S : s.vis = 1..g.N THEN S
               ELSE DJAll(g, TLCEval(UNION {IF s.vis = 1..g.N THEN {s} ELSE BatchStep(g, s) : s \in S}))

\* final (dist, prev) records over all tie-breaks
DijkstraOutcomes(g) == DJAll(g, {DJInit(g)})

\* EdgeToPath (path.go): follow the predecessor map from the target until it ends, then reverse
RECURSIVE PathI(_, _, _, _)
PathI(g, prev, i, fuel) == IF i = 0 \/ fuel = 0 THEN <<>> ELSE Append(PathI(g, prev, prev[i], fuel - 1), g.seq[i])
=============================================================================
