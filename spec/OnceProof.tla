----------------------------- MODULE OnceProof -----------------------------
(***************************************************************************)
(* Unbounded argument for C11 at the protocol level: for ANY number of     *)
(* goroutines G and ANY number of uses, the locked check/exec/store        *)
(* protocol of Once.tla executes the body at most once and every completed *)
(* use observes execution 1.  The actions are those of Once.tla with the   *)
(* schedule recorder `sched` (an output-only history variable) dropped and *)
(* Bugs = {} (the repaired code); `tools/once_proof_sync.py` checks that   *)
(* the action bodies below are textually those of Once.tla.  Checked by    *)
(* tlapm (SMT/Zenon/Isabelle back ends).                                   *)
(***************************************************************************)
EXTENDS Naturals, Sequences, TLAPS

CONSTANTS G, Uses
ASSUME GNat == G \in Nat
ASSUME UNat == Uses \in Nat

Gs == 1..G
VARIABLES pc, used, lock, memo, execs, mine, got
vars == <<pc, used, lock, memo, execs, mine, got>>

Init == /\ pc = [g \in Gs |-> "idle"] /\ used = [g \in Gs |-> 0] /\ lock = 0 /\ memo = 0 /\ execs = 0
        /\ mine = [g \in Gs |-> 0] /\ got = [g \in Gs |-> <<>>]

Enter(g) == /\ pc[g] = "idle" /\ used[g] < Uses
            /\ pc' = [pc EXCEPT ![g] = "entered"]
            /\ UNCHANGED <<used, lock, memo, execs, mine, got>>

Check(g) == /\ pc[g] = "entered" /\ lock = 0
            /\ IF memo # 0
               THEN /\ got' = [got EXCEPT ![g] = Append(@, memo)] /\ used' = [used EXCEPT ![g] = @ + 1]
                    /\ pc' = [pc EXCEPT ![g] = "idle"] /\ UNCHANGED <<lock, mine>>
               ELSE /\ pc' = [pc EXCEPT ![g] = "checked"] /\ lock' = g
                    /\ UNCHANGED <<got, used, mine>>
            /\ UNCHANGED <<memo, execs>>

Exec(g) == /\ pc[g] = "checked"
           /\ execs' = execs + 1 /\ mine' = [mine EXCEPT ![g] = execs + 1]
           /\ pc' = [pc EXCEPT ![g] = "execd"]
           /\ UNCHANGED <<used, lock, memo, got>>

Store(g) == /\ pc[g] = "execd"
            /\ memo' = mine[g] /\ got' = [got EXCEPT ![g] = Append(@, mine[g])]
            /\ used' = [used EXCEPT ![g] = @ + 1] /\ pc' = [pc EXCEPT ![g] = "idle"]
            /\ lock' = 0
            /\ UNCHANGED <<execs, mine>>

Next == \E g \in Gs : Enter(g) \/ Check(g) \/ Exec(g) \/ Store(g)
Spec == Init /\ [][Next]_vars

AtMostOnce == execs <= 1
SameResult == \A g \in Gs : \A i \in DOMAIN got[g] : got[g][i] = 1
Holders == {g \in Gs : pc[g] \in {"checked", "execd"}}
MutualExclusion == \A a, b \in Holders : a = b

TypeOK == /\ pc \in [Gs -> {"idle", "entered", "checked", "execd"}]
          /\ used \in [Gs -> Nat]
          /\ lock \in Gs \cup {0}
          /\ memo \in {0, 1}
          /\ execs \in {0, 1}
          /\ mine \in [Gs -> {0, 1}]
          /\ got \in [Gs -> Seq({1})]

Inv == /\ TypeOK
       /\ \A g \in Gs : (pc[g] \in {"checked", "execd"}) <=> (lock = g)
       /\ memo = 1 => execs = 1
       /\ \A g \in Gs : pc[g] = "checked" => (memo = 0 /\ execs = 0)
       /\ \A g \in Gs : pc[g] = "execd" => (memo = 0 /\ execs = 1 /\ mine[g] = 1)
       /\ (memo = 0 /\ \A g \in Gs : pc[g] # "execd") => execs = 0

LEMMA InitInv == Init => Inv
  BY GNat DEF Init, Inv, TypeOK, Gs

LEMMA NextInv == Inv /\ [Next]_vars => Inv'
<1> SUFFICES ASSUME Inv, [Next]_vars PROVE Inv'
  OBVIOUS
<1> USE GNat, UNat DEF Gs
<1>1. ASSUME NEW g \in Gs, Enter(g) PROVE Inv'
  BY <1>1 DEF Enter, Inv, TypeOK
<1>2. ASSUME NEW g \in Gs, Check(g) PROVE Inv'
  <2>1. CASE memo # 0
    <3>1. got[g] \in Seq({1}) /\ memo = 1
      BY <2>1 DEF Inv, TypeOK
    <3>2. Append(got[g], memo) \in Seq({1})
      BY <3>1
    <3>3. TypeOK'
      BY <1>2, <2>1, <3>2 DEF Check, Inv, TypeOK
    <3> QED BY <1>2, <2>1, <3>3 DEF Check, Inv, TypeOK
  <2>2. CASE memo = 0
    BY <1>2, <2>2 DEF Check, Inv, TypeOK
  <2> QED BY <2>1, <2>2
<1>3. ASSUME NEW g \in Gs, Exec(g) PROVE Inv'
  BY <1>3 DEF Exec, Inv, TypeOK
<1>4. ASSUME NEW g \in Gs, Store(g) PROVE Inv'
  <2>1. got[g] \in Seq({1}) /\ mine[g] = 1
    BY <1>4 DEF Store, Inv, TypeOK
  <2>2. Append(got[g], mine[g]) \in Seq({1})
    BY <2>1
  <2>3. TypeOK'
    BY <1>4, <2>2 DEF Store, Inv, TypeOK
  <2> QED BY <1>4, <2>3 DEF Store, Inv, TypeOK
<1>5. CASE UNCHANGED vars
  BY <1>5 DEF vars, Inv, TypeOK
<1> QED BY <1>1, <1>2, <1>3, <1>4, <1>5 DEF Next

LEMMA InvImplies == Inv => AtMostOnce /\ SameResult /\ MutualExclusion
<1> SUFFICES ASSUME Inv PROVE AtMostOnce /\ SameResult /\ MutualExclusion
  OBVIOUS
<1>1. AtMostOnce
  BY DEF Inv, TypeOK, AtMostOnce
<1>2. SameResult
  <2> SUFFICES ASSUME NEW g \in Gs, NEW i \in DOMAIN got[g] PROVE got[g][i] = 1
    BY DEF SameResult
  <2>1. got[g] \in Seq({1})
    BY DEF Inv, TypeOK
  <2> QED BY <2>1
<1>3. MutualExclusion
  BY DEF Inv, MutualExclusion, Holders
<1> QED BY <1>1, <1>2, <1>3

THEOREM OnceSafe == Spec => [](AtMostOnce /\ SameResult /\ MutualExclusion)
<1>1. Spec => []Inv
  BY InitInv, NextInv, PTL DEF Spec
<1> QED BY <1>1, InvImplies, PTL
=============================================================================
