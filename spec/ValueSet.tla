------------------------------ MODULE ValueSet ------------------------------
(***************************************************************************)
(* C15 (value-set half): NewValueSet / Values / Named / Typed /            *)
(* TypedSubtype / SignatureValues / FromSignature as a function of the     *)
(* list of values the set is built from.  Enumerator + oracle as in        *)
(* ResultAcc.  A value is [name, type, sub]; names may be given in upper   *)
(* case ("B"), the set reports them lower-cased.  Lookups are demanded     *)
(* only where the property demands them: by name; by type when exactly one *)
(* type-only value has that type; by type and subtype when exactly one     *)
(* value of the set has both.  The round trip (render as a signature,      *)
(* load into a second set built from the same list) must restore every     *)
(* value (value i carries token i).                                        *)
(***************************************************************************)
EXTENDS Naturals, Sequences, FiniteSets, Json, TLC

CONSTANT TraceFile

V(n, t, s) == [name |-> n, type |-> t, sub |-> s]
Vals == {V(n, t, s) : n \in {"", "a", "B"}, t \in {"T1", "T2"}, s \in {"", "s", "k=v"}}
\* Names and subtypes that need care in the struct-and-tag representation of a set.  They are symbols here; the
\* harness substitutes the real strings (both ways):
\*   names     xdotless = U+0131 (upper-cases to "I", which lower-cases to "i"), xdigit = "1a", xunder = "_a" (no exported
\*             field name; names are carried by the tag since the repair of F25), xcomman = "a,b"
\*   subtypes  xcomma = "a,b";  xquote = a"b and xback = a\b (fine once the tag is quoted properly)
\* The tag separates its parts by commas: a name or subtype containing one cannot be represented and must be refused.
BadName(n) == n = "xcomman"
BadSub(s) == s = "xcomma"
\*   blanks    xblankn = "a " (a name with a trailing blank), xblanks = " s" (a subtype with a leading blank): kept as they are
OddVals == {V(n, t, s) : n \in {"", "a", "xdotless", "xdigit", "xunder", "xcomman", "xblankn"}, t \in {"T1"}, s \in {"", "s", "xcomma", "xquote", "xback", "xblanks"}}
Lower(n) == IF n = "B" THEN "b" ELSE n
NoDupNames(q) == \A i, j \in DOMAIN q : (i # j /\ q[i].name # "" /\ q[j].name # "") => Lower(q[i].name) # Lower(q[j].name)
Lists == UNION {[1..k -> Vals] : k \in 0..3} \cup UNION {[1..k -> OddVals \cup {V("B", "T2", "")}] : k \in 1..2}
Representable(d) == /\ \A i \in DOMAIN d.vals : ~BadName(d.vals[i].name) /\ ~BadSub(d.vals[i].sub)
                    /\ NoDupNames(d.vals)
\* distinct values; no repeated name (type-only values of one type may differ in their subtype)
WF(q) == \A i, j \in DOMAIN q : i # j =>
            /\ q[i] # q[j]
            /\ (q[i].name # "" /\ q[j].name # "") => Lower(q[i].name) # Lower(q[j].name)
\* lists that use a name twice (also in different casing): refused with an error
DupLists == {<<V("a", "T1", ""), V("a", "T2", "")>>, <<V("a", "T1", ""), V("B", "T2", ""), V("b", "T1", "s")>>, <<V("B", "T1", ""), V("", "T1", ""), V("B", "T1", "s")>>}
Descs == {[vals |-> q, kind |-> "list"] : q \in {x \in Lists : WF(x)} \cup DupLists}
         \cup {[vals |-> q, kind |-> "lifted"] : q \in {<<V("", "T1", "")>>, <<V("", "T1", ""), V("", "T2", "")>>, <<V("", "T2", ""), V("", "T1", "")>>}}
         \* the input set of an ordinary function taking a marker struct / a pointer to one (what BuildFunc(f.Input(), ...) wraps)
         \cup {[vals |-> q, kind |-> k] : k \in {"struct", "ptrstruct"},
                                          q \in {<<V("a", "T1", "")>>, <<V("a", "T1", "s"), V("", "T2", "")>>, <<V("", "T2", "t"), V("B", "T1", "")>>}}

Rep(v) == V(Lower(v.name), v.type, v.sub)
ExpValues(d) == [i \in DOMAIN d.vals |-> Rep(d.vals[i])]
IdxNamed(d, n) == {i \in DOMAIN d.vals : Lower(d.vals[i].name) = n}
IdxTyped(d, t) == {i \in DOMAIN d.vals : d.vals[i].name = "" /\ d.vals[i].type = t}
IdxTS(d, t, s) == {i \in DOMAIN d.vals : d.vals[i].type = t /\ d.vals[i].sub = s}

VARIABLES d, l, rec
EnumInit == d \in Descs /\ l = 0 /\ rec = [ev |-> "none"]
EnumSpec == EnumInit /\ [][UNCHANGED <<d, l, rec>>]_<<d, l, rec>>
Emit == PrintT(<<"DESC", ToJson(d)>>)

Trace == ndJsonDeserialize(TraceFile)
TInit == l = 1 /\ rec = [ev |-> "none"] /\ d = 0
TNext == l <= Len(Trace) /\ l' = l + 1 /\ rec' = Trace[l] /\ UNCHANGED d
TraceSpec == TInit /\ [][TNext]_<<d, l, rec>>
\* rec.named[i] / rec.typed[i] / rec.ts[i] : index (1-based, 0 = nil) of the value the lookup for value i returned
C15 == rec.ev = "obs" =>
   LET dd == rec.desc IN
   /\ rec.panic = ""
   /\ rec.ok = Representable(dd)          \* a list the set cannot represent is refused with an error, never built wrongly
   /\ rec.ok => rec.values = ExpValues(dd)
   /\ rec.ok => \A i \in DOMAIN dd.vals :
        /\ dd.vals[i].name # "" => rec.named[i] = i
        /\ (dd.vals[i].name = "" /\ Cardinality(IdxTyped(dd, dd.vals[i].type)) = 1) => rec.typed[i] = i
        /\ Cardinality(IdxTS(dd, dd.vals[i].type, dd.vals[i].sub)) = 1 => rec.ts[i] = i
   /\ rec.ok => rec.roundtrip = [i \in DOMAIN dd.vals |-> i]
   \* rendering a set as a signature is a read: rendering it a second time gives the same values
   /\ rec.ok => rec.roundtrip2 = [i \in DOMAIN dd.vals |-> i]
Accepted == TLCGet("stats").diameter - 1 = Len(Trace)
Pos == [line |-> l, sid |-> 0]
=============================================================================
