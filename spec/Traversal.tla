---- MODULE Traversal ----
\* PlusCal models of internal/graph dfs.go, kahn.go, tarjan.go over ALL digraphs on N vertices,
\* all map-iteration orders (with x \in S), checked against declarative definitions.
EXTENDS Naturals, Sequences, FiniteSets, TLC

CONSTANT N
V == 1..N

\* ---------- declarative side ----------
RECURSIVE ReachFrom(_, _, _, _)
\* vertices reported by DFS from s when vertices in D decline: closure that does not expand D
ReachFrom(E, D, seen, frontier) ==
  IF frontier = {} THEN seen
  ELSE LET nxt == {w \in V : \E u \in frontier : <<u, w>> \in E} \ seen
       IN ReachFrom(E, D, seen \cup nxt, nxt \ D)
Reach(E, a) == ReachFrom(E, {}, {}, {a})          \* reachable in >= 1 step
Mutual(E, a, b) == a = b \/ (b \in Reach(E, a) /\ a \in Reach(E, b))
Cyclic(E) == \E a \in V : a \in Reach(E, a)

(* --algorithm Trav {
  variables E \in SUBSET (V \X V),        \* the digraph (all of them)
            D \in SUBSET V,               \* vertices whose callback declines to descend
            start \in V,
            \* DFS state
            visited = {}, reported = [v \in V |-> 0], descended = [v \in V |-> 0],
            \* Kahn state
            kE = {}, L = <<>>, S = <<>>, kpanic = FALSE, todo = {},
            \* Tarjan state
            idx = [v \in V |-> 0], nextIdx = 1, tstack = <<>>, scc = {}, ret = 0, unvis = {};

  \* dfs.go: visited is set on entry; callback is invoked for every not-yet-visited successor
  procedure dfs(dv)
    variables pend = {}, w = 0;
  {
  d0: visited := visited \cup {dv};
      pend := {x \in V : <<dv, x>> \in E};
  d1: while (pend # {}) {
        with (x \in pend) { w := x; pend := pend \ {x} };
        if (w \notin visited) {
          reported[w] := reported[w] + 1;
          if (w \notin D) {
            descended[w] := descended[w] + 1;
            call dfs(w);
          }
        }
      };
      return;
  }

  \* tarjan.go stronglyConnected(v) returning minIdx in ret
  procedure sc(tv)
    variables index = 0, minIdx = 0, tp = {}, tw = 0, comp = {};
  {
  t0: index := nextIdx; idx[tv] := nextIdx; nextIdx := nextIdx + 1; tstack := Append(tstack, tv);
      minIdx := index;
      tp := {x \in V : <<tv, x>> \in E};
  t1: while (tp # {}) {
        with (x \in tp) { tw := x; tp := tp \ {x} };
        if (idx[tw] = 0) {
          call sc(tw);
  t2:     minIdx := IF ret <= minIdx THEN ret ELSE minIdx;
        } else if (\E i \in DOMAIN tstack : tstack[i] = tw) {
          minIdx := IF idx[tw] <= minIdx THEN idx[tw] ELSE minIdx;
        }
      };
  t3: if (index = minIdx) {
  t4:   while (TRUE) {
          comp := comp \cup {tstack[Len(tstack)]};
          if (tstack[Len(tstack)] = tv) {
            tstack := SubSeq(tstack, 1, Len(tstack) - 1);
            goto t5;
          } else {
            tstack := SubSeq(tstack, 1, Len(tstack) - 1);
          }
        };
  t5:   scc := scc \cup {comp};
      };
  t6: ret := minIdx;
      return;
  }

  {
  \* ---- DFS ----
  m0: call dfs(start);
  \* ---- Kahn (on a copy) ----
  k0: kE := E;
      with (q \in {s \in [1..Cardinality({v \in V : ~\E u \in V : <<u, v>> \in E}) -> {v \in V : ~\E u \in V : <<u, v>> \in E}] :
                     \A i, j \in DOMAIN s : i # j => s[i] # s[j]}) { S := q };     \* any order of the in-degree-0 vertices
  k1: while (Len(S) > 0) {
        L := Append(L, S[Len(S)]);
        todo := {m \in V : <<S[Len(S)], m>> \in kE};
        ret := S[Len(S)];
        S := SubSeq(S, 1, Len(S) - 1);
  k2:   while (todo # {}) {
          with (m \in todo) {
            todo := todo \ {m};
            kE := kE \ {<<ret, m>>};
            if (~\E u \in V : <<u, m>> \in (kE \ {<<ret, m>>})) { S := Append(S, m) };
          }
        }
      };
      if (kE # {}) { kpanic := TRUE };
  \* ---- Tarjan ----
  s0: unvis := V;
  s1: while (unvis # {}) {
        with (x \in unvis) { unvis := unvis \ {x}; ret := x };
        if (idx[ret] = 0) { call sc(ret) };
      };
  done: skip;
  }
} *)
\* BEGIN TRANSLATION
CONSTANT defaultInitValue
VARIABLES pc, E, D, start, visited, reported, descended, kE, L, S, kpanic, 
          todo, idx, nextIdx, tstack, scc, ret, unvis, stack, dv, pend, w, tv, 
          index, minIdx, tp, tw, comp

vars == << pc, E, D, start, visited, reported, descended, kE, L, S, kpanic, 
           todo, idx, nextIdx, tstack, scc, ret, unvis, stack, dv, pend, w, 
           tv, index, minIdx, tp, tw, comp >>

Init == (* Global variables *)
        /\ E \in SUBSET (V \X V)
        /\ D \in SUBSET V
        /\ start \in V
        /\ visited = {}
        /\ reported = [v \in V |-> 0]
        /\ descended = [v \in V |-> 0]
        /\ kE = {}
        /\ L = <<>>
        /\ S = <<>>
        /\ kpanic = FALSE
        /\ todo = {}
        /\ idx = [v \in V |-> 0]
        /\ nextIdx = 1
        /\ tstack = <<>>
        /\ scc = {}
        /\ ret = 0
        /\ unvis = {}
        (* Procedure dfs *)
        /\ dv = defaultInitValue
        /\ pend = {}
        /\ w = 0
        (* Procedure sc *)
        /\ tv = defaultInitValue
        /\ index = 0
        /\ minIdx = 0
        /\ tp = {}
        /\ tw = 0
        /\ comp = {}
        /\ stack = << >>
        /\ pc = "m0"

d0 == /\ pc = "d0"
      /\ visited' = (visited \cup {dv})
      /\ pend' = {x \in V : <<dv, x>> \in E}
      /\ pc' = "d1"
      /\ UNCHANGED << E, D, start, reported, descended, kE, L, S, kpanic, todo, 
                      idx, nextIdx, tstack, scc, ret, unvis, stack, dv, w, tv, 
                      index, minIdx, tp, tw, comp >>

d1 == /\ pc = "d1"
      /\ IF pend # {}
            THEN /\ \E x \in pend:
                      /\ w' = x
                      /\ pend' = pend \ {x}
                 /\ IF w' \notin visited
                       THEN /\ reported' = [reported EXCEPT ![w'] = reported[w'] + 1]
                            /\ IF w' \notin D
                                  THEN /\ descended' = [descended EXCEPT ![w'] = descended[w'] + 1]
                                       /\ pc' = "Lbl_1"
                                  ELSE /\ pc' = "d1"
                                       /\ UNCHANGED descended
                       ELSE /\ pc' = "d1"
                            /\ UNCHANGED << reported, descended >>
                 /\ UNCHANGED << stack, dv >>
            ELSE /\ pc' = Head(stack).pc
                 /\ pend' = Head(stack).pend
                 /\ w' = Head(stack).w
                 /\ dv' = Head(stack).dv
                 /\ stack' = Tail(stack)
                 /\ UNCHANGED << reported, descended >>
      /\ UNCHANGED << E, D, start, visited, kE, L, S, kpanic, todo, idx, 
                      nextIdx, tstack, scc, ret, unvis, tv, index, minIdx, tp, 
                      tw, comp >>

Lbl_1 == /\ pc = "Lbl_1"
         /\ /\ dv' = w
            /\ stack' = << [ procedure |->  "dfs",
                             pc        |->  "d1",
                             pend      |->  pend,
                             w         |->  w,
                             dv        |->  dv ] >>
                         \o stack
         /\ pend' = {}
         /\ w' = 0
         /\ pc' = "d0"
         /\ UNCHANGED << E, D, start, visited, reported, descended, kE, L, S, 
                         kpanic, todo, idx, nextIdx, tstack, scc, ret, unvis, 
                         tv, index, minIdx, tp, tw, comp >>

dfs == d0 \/ d1 \/ Lbl_1

t0 == /\ pc = "t0"
      /\ index' = nextIdx
      /\ idx' = [idx EXCEPT ![tv] = nextIdx]
      /\ nextIdx' = nextIdx + 1
      /\ tstack' = Append(tstack, tv)
      /\ minIdx' = index'
      /\ tp' = {x \in V : <<tv, x>> \in E}
      /\ pc' = "t1"
      /\ UNCHANGED << E, D, start, visited, reported, descended, kE, L, S, 
                      kpanic, todo, scc, ret, unvis, stack, dv, pend, w, tv, 
                      tw, comp >>

t1 == /\ pc = "t1"
      /\ IF tp # {}
            THEN /\ \E x \in tp:
                      /\ tw' = x
                      /\ tp' = tp \ {x}
                 /\ IF idx[tw'] = 0
                       THEN /\ pc' = "Lbl_2"
                            /\ UNCHANGED minIdx
                       ELSE /\ IF \E i \in DOMAIN tstack : tstack[i] = tw'
                                  THEN /\ minIdx' = (IF idx[tw'] <= minIdx THEN idx[tw'] ELSE minIdx)
                                  ELSE /\ TRUE
                                       /\ UNCHANGED minIdx
                            /\ pc' = "t1"
            ELSE /\ pc' = "t3"
                 /\ UNCHANGED << minIdx, tp, tw >>
      /\ UNCHANGED << E, D, start, visited, reported, descended, kE, L, S, 
                      kpanic, todo, idx, nextIdx, tstack, scc, ret, unvis, 
                      stack, dv, pend, w, tv, index, comp >>

Lbl_2 == /\ pc = "Lbl_2"
         /\ /\ stack' = << [ procedure |->  "sc",
                             pc        |->  "t2",
                             index     |->  index,
                             minIdx    |->  minIdx,
                             tp        |->  tp,
                             tw        |->  tw,
                             comp      |->  comp,
                             tv        |->  tv ] >>
                         \o stack
            /\ tv' = tw
         /\ index' = 0
         /\ minIdx' = 0
         /\ tp' = {}
         /\ tw' = 0
         /\ comp' = {}
         /\ pc' = "t0"
         /\ UNCHANGED << E, D, start, visited, reported, descended, kE, L, S, 
                         kpanic, todo, idx, nextIdx, tstack, scc, ret, unvis, 
                         dv, pend, w >>

t2 == /\ pc = "t2"
      /\ minIdx' = (IF ret <= minIdx THEN ret ELSE minIdx)
      /\ pc' = "t1"
      /\ UNCHANGED << E, D, start, visited, reported, descended, kE, L, S, 
                      kpanic, todo, idx, nextIdx, tstack, scc, ret, unvis, 
                      stack, dv, pend, w, tv, index, tp, tw, comp >>

t3 == /\ pc = "t3"
      /\ IF index = minIdx
            THEN /\ pc' = "t4"
            ELSE /\ pc' = "t6"
      /\ UNCHANGED << E, D, start, visited, reported, descended, kE, L, S, 
                      kpanic, todo, idx, nextIdx, tstack, scc, ret, unvis, 
                      stack, dv, pend, w, tv, index, minIdx, tp, tw, comp >>

t4 == /\ pc = "t4"
      /\ comp' = (comp \cup {tstack[Len(tstack)]})
      /\ IF tstack[Len(tstack)] = tv
            THEN /\ tstack' = SubSeq(tstack, 1, Len(tstack) - 1)
                 /\ pc' = "t5"
            ELSE /\ tstack' = SubSeq(tstack, 1, Len(tstack) - 1)
                 /\ pc' = "t4"
      /\ UNCHANGED << E, D, start, visited, reported, descended, kE, L, S, 
                      kpanic, todo, idx, nextIdx, scc, ret, unvis, stack, dv, 
                      pend, w, tv, index, minIdx, tp, tw >>

t5 == /\ pc = "t5"
      /\ scc' = (scc \cup {comp})
      /\ pc' = "t6"
      /\ UNCHANGED << E, D, start, visited, reported, descended, kE, L, S, 
                      kpanic, todo, idx, nextIdx, tstack, ret, unvis, stack, 
                      dv, pend, w, tv, index, minIdx, tp, tw, comp >>

t6 == /\ pc = "t6"
      /\ ret' = minIdx
      /\ pc' = Head(stack).pc
      /\ index' = Head(stack).index
      /\ minIdx' = Head(stack).minIdx
      /\ tp' = Head(stack).tp
      /\ tw' = Head(stack).tw
      /\ comp' = Head(stack).comp
      /\ tv' = Head(stack).tv
      /\ stack' = Tail(stack)
      /\ UNCHANGED << E, D, start, visited, reported, descended, kE, L, S, 
                      kpanic, todo, idx, nextIdx, tstack, scc, unvis, dv, pend, 
                      w >>

sc == t0 \/ t1 \/ Lbl_2 \/ t2 \/ t3 \/ t4 \/ t5 \/ t6

m0 == /\ pc = "m0"
      /\ /\ dv' = start
         /\ stack' = << [ procedure |->  "dfs",
                          pc        |->  "k0",
                          pend      |->  pend,
                          w         |->  w,
                          dv        |->  dv ] >>
                      \o stack
      /\ pend' = {}
      /\ w' = 0
      /\ pc' = "d0"
      /\ UNCHANGED << E, D, start, visited, reported, descended, kE, L, S, 
                      kpanic, todo, idx, nextIdx, tstack, scc, ret, unvis, tv, 
                      index, minIdx, tp, tw, comp >>

k0 == /\ pc = "k0"
      /\ kE' = E
      /\ \E q \in {s \in [1..Cardinality({v \in V : ~\E u \in V : <<u, v>> \in E}) -> {v \in V : ~\E u \in V : <<u, v>> \in E}] :
                     \A i, j \in DOMAIN s : i # j => s[i] # s[j]}:
           S' = q
      /\ pc' = "k1"
      /\ UNCHANGED << E, D, start, visited, reported, descended, L, kpanic, 
                      todo, idx, nextIdx, tstack, scc, ret, unvis, stack, dv, 
                      pend, w, tv, index, minIdx, tp, tw, comp >>

k1 == /\ pc = "k1"
      /\ IF Len(S) > 0
            THEN /\ L' = Append(L, S[Len(S)])
                 /\ todo' = {m \in V : <<S[Len(S)], m>> \in kE}
                 /\ ret' = S[Len(S)]
                 /\ S' = SubSeq(S, 1, Len(S) - 1)
                 /\ pc' = "k2"
                 /\ UNCHANGED kpanic
            ELSE /\ IF kE # {}
                       THEN /\ kpanic' = TRUE
                       ELSE /\ TRUE
                            /\ UNCHANGED kpanic
                 /\ pc' = "s0"
                 /\ UNCHANGED << L, S, todo, ret >>
      /\ UNCHANGED << E, D, start, visited, reported, descended, kE, idx, 
                      nextIdx, tstack, scc, unvis, stack, dv, pend, w, tv, 
                      index, minIdx, tp, tw, comp >>

k2 == /\ pc = "k2"
      /\ IF todo # {}
            THEN /\ \E m \in todo:
                      /\ todo' = todo \ {m}
                      /\ kE' = kE \ {<<ret, m>>}
                      /\ IF ~\E u \in V : <<u, m>> \in (kE' \ {<<ret, m>>})
                            THEN /\ S' = Append(S, m)
                            ELSE /\ TRUE
                                 /\ S' = S
                 /\ pc' = "k2"
            ELSE /\ pc' = "k1"
                 /\ UNCHANGED << kE, S, todo >>
      /\ UNCHANGED << E, D, start, visited, reported, descended, L, kpanic, 
                      idx, nextIdx, tstack, scc, ret, unvis, stack, dv, pend, 
                      w, tv, index, minIdx, tp, tw, comp >>

s0 == /\ pc = "s0"
      /\ unvis' = V
      /\ pc' = "s1"
      /\ UNCHANGED << E, D, start, visited, reported, descended, kE, L, S, 
                      kpanic, todo, idx, nextIdx, tstack, scc, ret, stack, dv, 
                      pend, w, tv, index, minIdx, tp, tw, comp >>

s1 == /\ pc = "s1"
      /\ IF unvis # {}
            THEN /\ \E x \in unvis:
                      /\ unvis' = unvis \ {x}
                      /\ ret' = x
                 /\ IF idx[ret'] = 0
                       THEN /\ /\ stack' = << [ procedure |->  "sc",
                                                pc        |->  "s1",
                                                index     |->  index,
                                                minIdx    |->  minIdx,
                                                tp        |->  tp,
                                                tw        |->  tw,
                                                comp      |->  comp,
                                                tv        |->  tv ] >>
                                            \o stack
                               /\ tv' = ret'
                            /\ index' = 0
                            /\ minIdx' = 0
                            /\ tp' = {}
                            /\ tw' = 0
                            /\ comp' = {}
                            /\ pc' = "t0"
                       ELSE /\ pc' = "s1"
                            /\ UNCHANGED << stack, tv, index, minIdx, tp, tw, 
                                            comp >>
            ELSE /\ pc' = "done"
                 /\ UNCHANGED << ret, unvis, stack, tv, index, minIdx, tp, tw, 
                                 comp >>
      /\ UNCHANGED << E, D, start, visited, reported, descended, kE, L, S, 
                      kpanic, todo, idx, nextIdx, tstack, scc, dv, pend, w >>

done == /\ pc = "done"
        /\ TRUE
        /\ pc' = "Done"
        /\ UNCHANGED << E, D, start, visited, reported, descended, kE, L, S, 
                        kpanic, todo, idx, nextIdx, tstack, scc, ret, unvis, 
                        stack, dv, pend, w, tv, index, minIdx, tp, tw, comp >>

(* Allow infinite stuttering to prevent deadlock on termination. *)
Terminating == pc = "Done" /\ UNCHANGED vars

Next == dfs \/ sc \/ m0 \/ k0 \/ k1 \/ k2 \/ s0 \/ s1 \/ done
           \/ Terminating

Spec == Init /\ [][Next]_vars

Termination == <>(pc = "Done")

\* END TRANSLATION

DFSOk == pc = "done" =>
   LET want == ReachFrom(E, D, {start}, {start}) \ {start} IN
   /\ {v \in V : reported[v] > 0} = want \cup (IF start \in ReachFrom(E, D, {start}, {start}) THEN {} ELSE {})
   /\ \A v \in V : descended[v] <= 1
KahnOk == pc = "done" =>
   /\ kpanic = Cyclic(E)
   /\ ~kpanic => (/\ Len(L) = N /\ {L[i] : i \in DOMAIN L} = V
                  /\ \A e \in E : (CHOOSE i \in DOMAIN L : L[i] = e[1]) < (CHOOSE i \in DOMAIN L : L[i] = e[2]))
SCCOk == pc = "done" =>
   /\ UNION scc = V
   /\ \A c1 \in scc, c2 \in scc : c1 # c2 => c1 \cap c2 = {}
   /\ \A a \in V, b \in V : Mutual(E, a, b) <=> (\E c \in scc : a \in c /\ b \in c)
====
