------------------------------- MODULE Filter -------------------------------
(***************************************************************************)
(* The filter algebra (filter.go): FilterType, FilterAnd, FilterOr as a    *)
(* function of a filter expression and a value.  Redefine (C08) decides    *)
(* with such filters which inputs a redefined function may demand; this    *)
(* module is the oracle for the filters themselves.  Enumerator + oracle   *)
(* as in ResultAcc: TLC emits every (expression, value) pair of the        *)
(* bounded space, the harness builds the expression with the library's     *)
(* combinators and applies it, TLC compares the answer with Eval.          *)
(* An expression is [op, t, fs]: "type" with a type name, or "and" / "or"  *)
(* over a sequence of 0..2 sub-expressions, nested up to depth 2.          *)
(***************************************************************************)
EXTENDS Labels, Sequences, FiniteSets, Json, TLC

CONSTANT TraceFile

FTypes == {"T1", "T2", "T3", "I1", "I2", "I12"}        \* types a filter can name
VTypes == {"T1", "T2", "T3", "T4", "I12"}              \* (static) types of the values it is applied to
Seqs(S, n) == UNION {[1..k -> S] : k \in 0..n}
Leaf == {[op |-> "type", t |-> t, fs |-> <<>>] : t \in FTypes}
Comb(S) == {[op |-> o, t |-> "", fs |-> q] : o \in {"and", "or"}, q \in Seqs(S, 2)}
D1 == Leaf \cup Comb(Leaf)
\* depth 2 over a reduced leaf set, so that the space stays small
SmallLeaf == {[op |-> "type", t |-> t, fs |-> <<>>] : t \in {"T1", "I1", "I2"}}
D2 == D1 \cup Comb(SmallLeaf \cup Comb(SmallLeaf))

RECURSIVE Eval(_, _)
Eval(f, vt) ==
  CASE f.op = "type" -> vt = f.t \/ (f.t \in Ifaces /\ <<vt, f.t>> \in Impl)     \* the very type, or the value's type implements the named interface
    [] f.op = "and"  -> \A i \in DOMAIN f.fs : Eval(f.fs[i], vt)                 \* (the empty conjunction accepts everything)
    [] OTHER         -> \E i \in DOMAIN f.fs : Eval(f.fs[i], vt)                 \* (the empty disjunction accepts nothing)

Descs == {[f |-> f, vt |-> vt, named |-> n] : f \in D2, vt \in VTypes, n \in BOOLEAN}

VARIABLES d, l, rec
EnumInit == d \in Descs /\ l = 0 /\ rec = [ev |-> "none"]
EnumSpec == EnumInit /\ [][UNCHANGED <<d, l, rec>>]_<<d, l, rec>>
Emit == PrintT(<<"DESC", ToJson(d)>>)

Trace == ndJsonDeserialize(TraceFile)
TInit == l = 1 /\ rec = [ev |-> "none"] /\ d = 0
TNext == l <= Len(Trace) /\ l' = l + 1 /\ rec' = Trace[l] /\ UNCHANGED d
TraceSpec == TInit /\ [][TNext]_<<d, l, rec>>
\* the name and subtype of the value play no role: only its type is looked at
FilterOK == rec.ev = "obs" => (rec.panic = "" /\ rec.accept = Eval(rec.desc.f, rec.desc.vt))
\* algebraic laws of the specification itself (checked on the enumeration)
Laws == /\ Eval([op |-> "and", t |-> "", fs |-> <<d.f, d.f>>], d.vt) = Eval(d.f, d.vt)
        /\ Eval([op |-> "or", t |-> "", fs |-> <<d.f, [op |-> "and", t |-> "", fs |-> <<>>]>>], d.vt)
Accepted == TLCGet("stats").diameter - 1 = Len(Trace)
Pos == [line |-> l, sid |-> 0]
=============================================================================
