----------------------------- MODULE ResultAcc -----------------------------
(***************************************************************************)
(* C17: the accessors of Result (Len, Out, Err) as a function of the       *)
(* signature and of the values the function returned.  The module          *)
(*  - enumerates every descriptor of the bounded space (EnumSpec; TLC      *)
(*    emits them for the harness), and                                     *)
(*  - is the oracle: each recorded observation must equal Expected(desc)   *)
(*    (TraceSpec; one line per descriptor and repetition).                 *)
(* Result kinds: T1, T2 ordinary values; "err" the interface type error;   *)
(* "cerr" a concrete error type (pointer to MyErr).  Value i carries token i; a nil  *)
(* error / nil pointer is token 0.                                         *)
(***************************************************************************)
EXTENDS Naturals, Sequences, FiniteSets, Json, TLC

CONSTANT TraceFile

Kinds == {"T1", "T2", "err", "cerr"}
Seqs(S, n) == UNION {[1..k -> S] : k \in 0..n}
Count(q, x) == Cardinality({i \in DOMAIN q : q[i] = x})
\* tnil: a non-nil "err" result is an error interface holding a nil pointer (a non-nil error all the same)
\* once: the function is a run-once function;  second: the observed call is the second call of the function
\* object (with fail: the first call was given the missing input and succeeded, the observed one is not)
\* how: "" the function is called directly;  "redef" it is called through its redefinition f.Redefine() (the redefined function
\*      returns what the original returns, the values next to a non-nil final error included);
\*      "nilarg" the call is given a nil option, "generr" a converter generator that reports an error and a value for it to be
\*      asked about: both fail before anything is resolved (length 0, a non-nil error), also for a function without parameters
Hows == {"", "redef", "nilarg", "generr"}
Descs == { [rs |-> rs, nonnil |-> nn, fail |-> f, tnil |-> tn, once |-> o, second |-> sc, how |-> h] :
             rs \in {q \in Seqs(Kinds, 3) : Count(q, "T1") <= 1 /\ Count(q, "T2") <= 1 /\ Count(q, "cerr") <= 1}
                    \* a marker struct ("st") or a pointer to one ("pst", possibly nil) as the only result: one output, the struct itself
                    \cup {<<"st">>, <<"st", "err">>, <<"pst">>, <<"pst", "err">>},
             nn \in [1..3 -> BOOLEAN], f \in BOOLEAN, tn \in BOOLEAN, o \in BOOLEAN, sc \in BOOLEAN, h \in Hows }
Canon(d) == /\ \A i \in 1..3 : (i > Len(d.rs) \/ d.rs[i] \in {"T1", "T2", "st"}) => d.nonnil[i]   \* irrelevant flags fixed
            /\ d.tnil => \E i \in DOMAIN d.rs : d.rs[i] = "err" /\ d.nonnil[i]
            /\ d.once => d.second
            /\ d.how # "" => (~d.once /\ ~d.second /\ ~d.tnil)
            /\ d.how = "redef" => (~d.fail /\ \A i \in DOMAIN d.rs : d.rs[i] \notin {"st", "pst"})

Tok(d, i) == IF d.rs[i] \in {"T1", "T2", "st"} \/ (d.nonnil[i] /\ ~(d.tnil /\ d.rs[i] = "err")) THEN i ELSE 0
HasErr(d) == Len(d.rs) > 0 /\ d.rs[Len(d.rs)] = "err"
Expected(d) ==
  IF d.fail \/ d.how \in {"nilarg", "generr"} THEN [len |-> 0, outs |-> <<>>, outnil |-> <<>>, errnil |-> FALSE, errtok |-> 0, resolved |-> FALSE]
  ELSE LET n == IF HasErr(d) THEN Len(d.rs) - 1 ELSE Len(d.rs) IN
       [len |-> n, outs |-> [i \in 1..n |-> Tok(d, i)],
        \* Out(i) is the returned value itself: only a nil value of the INTERFACE type error is a nil interface - a nil
        \* pointer (concrete error type, pointer to a marker struct) stays a typed nil
        outnil |-> [i \in 1..n |-> d.rs[i] = "err" /\ ~d.nonnil[i]],
        errnil |-> ~(HasErr(d) /\ d.nonnil[Len(d.rs)]),
        errtok |-> IF HasErr(d) /\ d.nonnil[Len(d.rs)] /\ ~d.tnil THEN Len(d.rs) ELSE 0, resolved |-> TRUE]

\* ---- enumeration
VARIABLES d, l, rec
EnumInit == d \in {x \in Descs : Canon(x)} /\ l = 0 /\ rec = [ev |-> "none"]
EnumSpec == EnumInit /\ [][UNCHANGED <<d, l, rec>>]_<<d, l, rec>>
Emit == PrintT(<<"DESC", ToJson(d)>>)

\* ---- oracle over recorded observations
Trace == ndJsonDeserialize(TraceFile)
TInit == l = 1 /\ rec = [ev |-> "none"] /\ d = 0
TNext == l <= Len(Trace) /\ l' = l + 1 /\ rec' = Trace[l] /\ UNCHANGED d
TraceSpec == TInit /\ [][TNext]_<<d, l, rec>>
C17 == rec.ev = "obs" =>
   LET e == Expected(rec.desc) IN
   /\ rec.panic = ""
   /\ rec.len = e.len
   \* (also through a redefinition, and also next to a non-nil final error - repair of F32)
   /\ rec.outs = e.outs /\ rec.outnil = e.outnil
   /\ rec.errnil = e.errnil
   /\ rec.errtok = e.errtok
   /\ (~e.resolved /\ rec.desc.how = "") => rec.unsat
Accepted == TLCGet("stats").diameter - 1 = Len(Trace)
Pos == [line |-> l, sid |-> 0]
=============================================================================
