----------------------------- MODULE TravTrace -----------------------------
(***************************************************************************)
(* Trace validation for C20: DFS, KahnSort, StronglyConnected and          *)
(* TopoShortestPath of the real internal/graph package are run on graphs   *)
(* built through the public API; what they reported is judged here against *)
(* declarative definitions (restricted reachability, topological order,    *)
(* mutual-reachability classes, Bellman-Ford distances).  One line per     *)
(* graph and repetition (repetitions vary insertion and map order).        *)
(* The algorithms themselves are model-checked over all small digraphs     *)
(* and all iteration orders in Traversal.tla (PlusCal).                    *)
(***************************************************************************)
EXTENDS Integers, Sequences, FiniteSets, FiniteSetsExt, Json, TLC

CONSTANTS N, TraceFile
V == 1..N
Trace == ndJsonDeserialize(TraceFile)

VARIABLES l, ev
vars == <<l, ev>>
Init == l = 1 /\ ev = [ev |-> "none"]
Next == l <= Len(Trace) /\ l' = l + 1 /\ ev' = Trace[l]
Spec == Init /\ [][Next]_vars

SetOf(q) == {q[i] : i \in DOMAIN q}
Edges == {<<ev.edges[i][1], ev.edges[i][2]>> : i \in DOMAIN ev.edges}
Wt(a, b) == (CHOOSE i \in DOMAIN ev.edges : ev.edges[i][1] = a /\ ev.edges[i][2] = b) \* index
Weight(a, b) == ev.edges[Wt(a, b)][3]

RECURSIVE ReachFrom(_, _, _, _)
\* closure from the frontier that does not expand the vertices in D
ReachFrom(E, D, seen, frontier) ==
  IF frontier = {} THEN seen
  ELSE LET nxt == {w \in V : \E u \in frontier : <<u, w>> \in E} \ seen
       IN ReachFrom(E, D, seen \cup nxt, nxt \ D)
Reach(E, a) == ReachFrom(E, {}, {}, {a})          \* reachable in >= 1 step
Mutual(E, a, b) == a = b \/ (b \in Reach(E, a) /\ a \in Reach(E, b))
Cyclic(E) == \E a \in V : a \in Reach(E, a)
Count(q, x) == Cardinality({i \in DOMAIN q : q[i] = x})

\* depth-first traversal: exactly the other vertices reachable without passing through a declining
\* vertex are reported; every vertex descended into is reported (and descended into) exactly once
DFSOk == ev.ev = "trav" => \A i \in DOMAIN ev.dfs :
   LET r == ev.dfs[i]
       D == SetOf(r.decline)
       want == ReachFrom(Edges, D, {r.start}, {r.start}) \ {r.start}
   IN /\ SetOf(r.reports) = want
      /\ \A v \in SetOf(r.descents) : Count(r.descents, v) = 1 /\ Count(r.reports, v) = 1 /\ v \notin D
      /\ \A v \in want \ D : v \in SetOf(r.descents)

\* topological sorting: every vertex exactly once, every edge forward; panics exactly on cyclic graphs
KahnRun(k) ==
   LET L == k.order IN
   /\ k.panic = Cyclic(Edges)
   /\ ~k.panic => /\ Len(L) = N /\ SetOf(L) = V
                  /\ \A e \in Edges : (CHOOSE i \in DOMAIN L : L[i] = e[1]) < (CHOOSE i \in DOMAIN L : L[i] = e[2])
\* (kahn: the first routine run on the graph object; kahn2: a second sort after all other routines ran on it)
KahnOk == ev.ev = "trav" => KahnRun(ev.kahn) /\ KahnRun(ev.kahn2)

\* components: a partition into exactly the mutual-reachability classes
SCCOk == ev.ev = "trav" =>
   LET scc == {SetOf(ev.scc[i]) : i \in DOMAIN ev.scc} IN
   /\ UNION scc = V
   /\ \A i, j \in DOMAIN ev.scc : i # j => SetOf(ev.scc[i]) \cap SetOf(ev.scc[j]) = {}
   /\ \A i \in DOMAIN ev.scc : Len(ev.scc[i]) = Cardinality(SetOf(ev.scc[i]))
   /\ \A a \in V, b \in V : Mutual(Edges, a, b) <=> (\E c \in scc : a \in c /\ b \in c)

\* on a single-rooted acyclic graph TopoShortestPath agrees with the true distances from the root
\* (and with what Dijkstra returned for the same graph)
Big == 1000000
RECURSIVE BF(_, _, _)
BF(d, n, E) == IF n = 0 THEN d
               ELSE BF(TLCEval([v \in V |-> Min({d[v]} \cup {d[e[1]] + Weight(e[1], e[2]) : e \in {x \in E : x[2] = v /\ d[x[1]] # Big}})]), n - 1, E)
Roots == {v \in V : ~\E e \in Edges : e[2] = v}
TopoOk == (ev.ev = "trav" /\ ev.topo.ran) =>
   LET root == CHOOSE r \in Roots : TRUE
       md == BF([v \in V |-> IF v = root THEN 0 ELSE Big], N, Edges)
   IN /\ Cardinality(Roots) = 1 /\ ~Cyclic(Edges)
      /\ \A v \in V \ {root} : md[v] # Big => (ev.topo.dist[v] = md[v] /\ ev.topo.dijkstra[v] = md[v])
      /\ \A v \in V \ {root} : md[v] # Big =>
           LET p == ev.topo.prev[v] IN <<p, v>> \in Edges /\ md[v] = (IF p = root THEN 0 ELSE md[p]) + Weight(p, v)

Accepted == TLCGet("stats").diameter - 1 = Len(Trace)
Pos == [line |-> l, sid |-> 0]
=============================================================================
