---------------------------- MODULE MC_GraphADT ----------------------------
(* Exhaustive model checking of GraphADT within a bounded number of operations, and      *)
(* generation of behaviours (simulation mode) that the harness replays on the real code. *)
EXTENDS GraphADT, Json

CONSTANT MaxOps
VARIABLES nops, hist     \* hist: the operations so far, emitted for replay
mvars == <<gvars, nops, hist>>

Op(name, i, k, ver, a, b, w) == [op |-> name, h |-> i, k |-> k, ver |-> ver, a |-> a, b |-> b, w |-> w]
K0 == CHOOSE k \in Keys : TRUE

MInit == GInit /\ nops = 0 /\ hist = <<>>
MNext == /\ nops < MaxOps
         /\ nops' = nops + 1
         /\ \E i \in DOMAIN handles :
              \/ \E k \in Keys, v \in Vers : AddV(i, k, v, FALSE) /\ hist' = Append(hist, Op("add", i, k, v, K0, K0, 0))
              \/ \E k \in Keys, v \in Vers : AddV(i, k, v, TRUE) /\ hist' = Append(hist, Op("addow", i, k, v, K0, K0, 0))
              \/ \E a, b \in Keys, w \in Weights : AddE(i, a, b, w) /\ hist' = Append(hist, Op("adde", i, K0, 0, a, b, w))
              \/ \E a, b \in Keys : RemE(i, a, b) /\ hist' = Append(hist, Op("reme", i, K0, 0, a, b, 0))
              \/ \E k \in Keys : RemV(i, k) /\ hist' = Append(hist, Op("remv", i, k, 0, K0, K0, 0))
              \/ Copy(i) /\ hist' = Append(hist, Op("copy", i, K0, 0, K0, K0, 0))
              \/ Reverse(i) /\ hist' = Append(hist, Op("reverse", i, K0, 0, K0, K0, 0))
MSpec == MInit /\ [][MNext]_mvars

\* history variables are not part of the state for exhaustive checking
MView == <<adj, hash, handles, nops>>
\* emitted at the end of every simulated behaviour
EmitHist == nops = MaxOps => PrintT(<<"HIST", ToJson(hist)>>)
=============================================================================
