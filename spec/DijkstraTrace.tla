--------------------------- MODULE DijkstraTrace ---------------------------
(***************************************************************************)
(* Trace validation for C18.  For every graph the harness builds it        *)
(* through the public Graph API (random insertion orders), runs Dijkstra   *)
(* with the verif pop hook installed and records: the graph, every pop     *)
(* (vertex, distance) in order, and the returned distTo / edgeTo maps plus *)
(* EdgeToPath of every vertex.  Each pop line must be a Pop step of        *)
(* Dijkstra.tla (a minimum-distance unvisited vertex - this is what a      *)
(* stale heap position breaks first); the result line must equal the       *)
(* specification state and satisfy the declarative statement of C18.       *)
(***************************************************************************)
EXTENDS Dijkstra, Json

CONSTANT TraceFile
Trace == ndJsonDeserialize(TraceFile)

VARIABLES l, popok, res
tvars == <<dvars, l, popok, res>>

NoRes == [ev |-> "none"]
Init == /\ l = 1 /\ popok = TRUE /\ res = NoRes
        /\ w = [u \in V |-> [v \in V |-> None]] /\ src = 1
        /\ dist = [v \in V |-> MaxI] /\ prev = [v \in V |-> 0] /\ vis = V

Ev == Trace[l]
Consume == l <= Len(Trace) /\ l' = l + 1

TGraph == /\ Consume /\ Ev.ev = "graph"
          /\ w' = [u \in V |-> [v \in V |-> Ev.w[u][v]]] /\ src' = Ev.src
          /\ dist' = [v \in V |-> IF v = Ev.src THEN 0 ELSE MaxI]
          /\ prev' = [v \in V |-> 0] /\ vis' = {}
          /\ popok' = TRUE /\ res' = NoRes

\* the logged pop is applied whatever it is; whether it was a legal step is recorded for the invariant
TPop == /\ Consume /\ Ev.ev = "pop"
        /\ LET u == Ev.v IN
           /\ popok' = (popok /\ IsMinUnvisited(u) /\ (Reachable(u) => Ev.d = dist[u]))
           /\ vis' = vis \cup {u}
           /\ dist' = [v \in V |-> IF Better(u, v) THEN Wrap(dist[u] + w[u][v]) ELSE dist[v]]
           /\ prev' = [v \in V |-> IF Better(u, v) THEN u ELSE prev[v]]
        /\ UNCHANGED <<w, src, res>>

TResult == /\ Consume /\ Ev.ev = "result" /\ res' = Ev /\ UNCHANGED <<dvars, popok>>

Next == TGraph \/ TPop \/ TResult
Spec == Init /\ [][Next]_tvars

\* every pop was a minimum-distance unvisited vertex with the distance the specification has for it
PopsLegal == popok
\* the returned maps are the specification's state after those pops ...
RDist == [v \in V |-> res.dist[v]]
RPrev == [v \in V |-> res.prev[v]]
ResultIsSpecState == res.ev = "result" =>
   LET md == TLCEval(MinDist) IN
   /\ vis = V
   /\ \A v \in V : RPrev[v] = prev[v] /\ (md[v] # MaxI => RDist[v] = dist[v])
\* ... and satisfy C18 as stated, judged on the logged values alone
RevSeq(s) == [i \in 1..Len(s) |-> s[Len(s) + 1 - i]]
\* the path EdgeToPath returns for v: for a reachable vertex a source-to-v path of existing edges whose weights
\* sum to the reported distance; for an unreachable one a vertex list that does not contain the source
PathOK(v) ==
  LET p == res.paths[v]
      md == TLCEval(MinDist) IN
  IF md[v] # MaxI
  THEN /\ Len(p) >= 1 /\ p[1] = src /\ p[Len(p)] = v
       /\ \A i \in 1..(Len(p) - 1) : w[p[i]][p[i + 1]] # None
       /\ RDist[v] = FoldSet(LAMBDA i, acc : acc + w[p[i]][p[i + 1]], 0, 1..(Len(p) - 1))
  ELSE \A i \in DOMAIN p : p[i] # src
C18 == res.ev = "result" =>
   /\ Correct(RDist, RPrev)
   /\ \A v \in V : PathOK(v)

Accepted == TLCGet("stats").diameter - 1 = Len(Trace)
Pos == [line |-> l, sid |-> 0]
=============================================================================
