---------------------------- MODULE SparseLemma ----------------------------
(***************************************************************************)
(* Binds the certificate of DijkstraSparse.tla to the declarative          *)
(* statement of C18 in Dijkstra.tla: on EVERY digraph over 1..N that       *)
(* contains the chain 1 -> 2 -> ... -> N and has weights >= 1, and for     *)
(* EVERY candidate result (d, p) over a range that includes all true       *)
(* distances,                                                              *)
(*      Feasible /\ Tight   <=>   Dijkstra!Correct(d, p)                   *)
(* (exhaustive for N = 3, every edge absent or of weight 1 - 128 graphs x   *)
(* 8 000 candidates, 25 s; larger weight sets take tens of minutes).  The certificate operators are the ones the trace        *)
(* validation uses (INSTANCE), applied to the edge list of the matrix.     *)
(***************************************************************************)
EXTENDS Dijkstra, SequencesExt

CONSTANT OtherW        \* weights of the edges off the chain (besides "absent")

DS == INSTANCE DijkstraSparse WITH TraceFile <- "", l <- 0, rec <- 0

ChainGraphs == { wm \in [V -> [V -> OtherW \cup {None}]] : \A i \in 1..(N - 1) : wm[i][i + 1] \in {1, 2} }
LInit == \E wm \in ChainGraphs : Start(wm, 1)
LSpec == LInit /\ [][UNCHANGED dvars]_dvars

EdgeSeq == SetToSeq({<<u, v, w[u][v]>> : u, v \in V} \ {<<u, v, None>> : u, v \in V})
Rec(d, p) == [ev |-> "sparse", n |-> N, edges |-> EdgeSeq, dist |-> d, prev |-> p, path |-> <<>>]
Cert(d, p) == LET r == Rec(d, p) IN DS!Feasible(r) /\ DS!Tight(r, DS!ESet(r), DS!MaxW(r))

DRange == 0..4
Equivalent == \A d \in [V -> DRange], p \in [V -> 0..N] : Cert(d, p) <=> Correct(d, p)
\* the lemma speaks about well-formed lines only - every graph of this enumeration is one
AllWellFormed == LET r == Rec([v \in V |-> 0], [v \in V |-> 0]) IN DS!WellFormed(r, DS!ESet(r))
\* non-vacuity: on every graph some candidate is accepted (the true distances with a tight predecessor map exist)
SomeAccepted == \E d \in [V -> DRange], p \in [V -> 0..N] : Cert(d, p)
=============================================================================
