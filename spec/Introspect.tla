----------------------------- MODULE Introspect -----------------------------
(***************************************************************************)
(* C14: the value sets NewFunc reports for a signature, as a function of a *)
(* descriptor of that signature.  Enumerator (EnumSpec) + oracle           *)
(* (TraceSpec) as in ResultAcc.                                            *)
(* A side is positional (list of types), a marker struct (ordered fields   *)
(* with tags, 0..2 pointers around it) or absent.  Tags: "none", "ren"     *)
(* (renames to Ren), "typeOnly", "rensub" (Ren,subtype=s), "typeOnlysub".  *)
(* "static" descriptors name structs declared in the harness (unexported   *)
(* fields cannot be synthesised by reflection).                            *)
(***************************************************************************)
EXTENDS Naturals, Sequences, FiniteSets, Json, TLC

CONSTANT TraceFile

Tags == {"none", "ren", "typeOnly", "rensub", "typeOnlysub", "subeq", "subup", "subfirst", "renopt", "typeOnlyRen", "subonly"}
\* subeq: ",typeOnly,subtype=k=v" (a subtype containing "=");  subup: "Ren,subtype=Foo" (names are lower-cased, subtypes are not)
\* subfirst: ",subtype=s,typeOnly" (options in the other order);  renopt: "Ren,other" (an option the library does not know);
\* typeOnlyRen: "Ren,typeOnly" (the type-only option empties a given name too);  subonly: ",subtype=s" (the name stays the field's)
Fld(n, t, g) == [fname |-> n, ftype |-> t, tag |-> g]
NoSide == [kind |-> "none", ptr |-> 0, types |-> <<>>, fields |-> <<>>]
PosSide(ts) == [kind |-> "pos", ptr |-> 0, types |-> ts, fields |-> <<>>]
StructSide(p, fs) == [kind |-> "struct", ptr |-> p, types |-> <<>>, fields |-> fs]

PosLists == {<<"T1">>, <<"T2">>, <<"T1", "T2">>, <<"T2", "T1">>, <<"T1", "T1">>, <<"T1", "T2", "T1">>, <<"I1">>, <<"I1", "T1">>}
FieldLists == {<<>>} \cup {<<Fld("Alpha", "T1", g)>> : g \in Tags} \cup {<<Fld("BETA", "T2", g)>> : g \in Tags}
              \cup {<<Fld("Alpha", "T1", g), Fld("BETA", "T2", h)>> : g \in Tags, h \in Tags}
              \cup {<<Fld("BETA", "T2", g), Fld("Alpha", "I1", "none")>> : g \in Tags}
\* (256 and 257 pointers: a depth that does not fit the byte the library counts in)
Sides == {NoSide} \cup {PosSide(ts) : ts \in PosLists} \cup {StructSide(p, fs) : p \in 0..2, fs \in FieldLists}
         \cup {StructSide(p, <<Fld("Alpha", "T1", "none")>>) : p \in {3, 255, 256, 257}}
SimpleSides == {NoSide, PosSide(<<"T2">>), StructSide(0, <<Fld("Alpha", "T1", "none")>>)}

Descs == { [inp |-> i, out |-> o, errpos |-> e, special |-> ""] : i \in Sides, o \in SimpleSides, e \in {"none", "final"} }
         \cup { [inp |-> i, out |-> o, errpos |-> e, special |-> ""] : i \in SimpleSides, o \in Sides, e \in {"none", "final"} }
         \cup { [inp |-> NoSide, out |-> PosSide(ts), errpos |-> "middle", special |-> ""] : ts \in {<<"T1", "T2">>, <<"T2", "T1">>, <<"T1", "T1">>} }
         \* two error results at the end: only the FINAL one is the function's error, the one before it is an ordinary type-only value
         \cup { [inp |-> i, out |-> o, errpos |-> "double", special |-> ""] : i \in {NoSide, PosSide(<<"T1">>)}, o \in {NoSide, PosSide(<<"T1">>), PosSide(<<"T1", "T2">>), PosSide(<<"I1">>)} }
         \* a marker struct mixed with another parameter / result, the struct first ("mixedin", "mixedout") or last ("...2")
         \cup { [inp |-> i, out |-> NoSide, errpos |-> e, special |-> s] : i \in {StructSide(0, <<Fld("Alpha", "T1", "none")>>), StructSide(1, <<Fld("BETA", "T2", "ren")>>)},
                                                                          s \in {"mixedin", "mixedout", "mixedin2", "mixedout2"}, e \in {"none", "final"} }
         \* a variadic final parameter is a parameter of the slice type
         \cup { [inp |-> PosSide(ts), out |-> o, errpos |-> "none", special |-> "variadic"] : ts \in {<<"T1">>, <<"T2", "T1">>, <<"T1", "T1">>}, o \in {NoSide, PosSide(<<"T2">>)} }
         \cup { [inp |-> NoSide, out |-> NoSide, errpos |-> "none", special |-> s] : s \in {"nonfunc", "nil", "ptrfunc", "S1", "S2", "S3", "S4", "S5", "S6", "S7", "S8", "S9"} }

Lower(n) == CASE n = "Alpha" -> "alpha" [] n = "BETA" -> "beta" [] n = "Ren" -> "ren" [] OTHER -> n
FieldValue(f) ==
  [name |-> CASE f.tag \in {"none", "subonly"} -> Lower(f.fname) [] f.tag \in {"ren", "rensub", "subup", "renopt"} -> "ren" [] OTHER -> "",      \* typeOnly, typeOnlysub, subeq, subfirst, typeOnlyRen
   type |-> f.ftype,
   sub  |-> CASE f.tag \in {"rensub", "typeOnlysub", "subfirst", "subonly"} -> "s" [] f.tag = "subeq" -> "k=v" [] f.tag = "subup" -> "Foo" [] OTHER -> ""]
SideValues(s) == CASE s.kind = "none" -> <<>>
                   [] s.kind = "pos" -> [i \in DOMAIN s.types |-> [name |-> "", type |-> s.types[i], sub |-> ""]]
                   [] OTHER -> [i \in DOMAIN s.fields |-> FieldValue(s.fields[i])]
SideOK(s) == s.kind # "struct" \/ s.ptr <= 1
\* an error result in the middle is an ordinary type-only value of type error ("E")
WithMiddleErr(vals) == <<vals[1], [name |-> "", type |-> "E", sub |-> ""]>> \o SubSeq(vals, 2, Len(vals))

V(n, t, s) == [name |-> n, type |-> t, sub |-> s]
Static(s) == CASE s = "S1" -> [ok |-> TRUE, inp |-> <<V("alpha", "T1", "")>>, out |-> <<>>]                      \* {Struct; Alpha T1; gamma T2}
               [] s = "S2" -> [ok |-> TRUE, inp |-> <<V("", "T2", "s")>>, out |-> <<V("alpha", "T1", "")>>]        \* in {Struct; hidden T1; Beta T2 `,typeOnly,subtype=s`} out *{Struct; Alpha T1; x int}
               [] s = "S3" -> [ok |-> TRUE, inp |-> <<V("ren", "T1", "s"), V("beta", "T2", "")>>, out |-> <<>>]     \* *{Struct; Alpha T1 `Ren,subtype=s`; skipped T1; BETA T2}
               [] s = "S4" -> [ok |-> TRUE, inp |-> <<V("t1", "T1", ""), V("beta", "T2", "")>>, out |-> <<>>]       \* {Struct; T1 (embedded, exported); Beta T2}
               [] s = "S5" -> [ok |-> TRUE, inp |-> <<V("", "SP", "")>>, out |-> <<>>]                              \* func(SP) with type SP *SP: an ordinary (pointer) type
               [] s = "S6" -> [ok |-> TRUE, inp |-> <<V("", "SQ", ""), V("", "T1", "")>>, out |-> <<V("", "SR", "")>>]  \* func(SQ, T1) SR with type SQ *SR; type SR *SQ
               \* SB = struct{ Params; B T2 } with Params = struct{ Struct; A T1 }: the marker is two levels down, SB itself is an ordinary type
               [] s = "S9" -> [ok |-> TRUE, inp |-> <<V("alpha", "T1", ""), V("beta", "T2", "")>>, out |-> <<>>]     \* {Alpha T1; Struct; Beta T2}: the marker is not the first field
               [] s = "S7" -> [ok |-> TRUE, inp |-> <<V("", "SB", "")>>, out |-> <<>>]                              \* func(SB)
               [] OTHER   -> [ok |-> TRUE, inp |-> <<V("", "T1", ""), V("", "SB", "")>>, out |-> <<V("", "SB", "")>>]  \* func(T1, SB) SB

Expected(d) ==
  CASE d.special \in {"nonfunc", "nil", "ptrfunc", "mixedin", "mixedout", "mixedin2", "mixedout2"} -> [ok |-> FALSE, inp |-> <<>>, out |-> <<>>]   \* (ptrfunc: a pointer to a function is not a function)
    [] d.special \in {"S1", "S2", "S3", "S4", "S5", "S6", "S7", "S8", "S9"} -> Static(d.special)
    [] d.special = "variadic" ->
         LET vs == SideValues(d.inp) n == Len(vs) IN
         [ok |-> TRUE, inp |-> [i \in 1..n |-> IF i = n THEN [vs[i] EXCEPT !.type = "[]" \o @] ELSE vs[i]], out |-> SideValues(d.out)]
    [] ~SideOK(d.inp) \/ ~SideOK(d.out) -> [ok |-> FALSE, inp |-> <<>>, out |-> <<>>]
    [] OTHER -> [ok |-> TRUE, inp |-> SideValues(d.inp),
                 out |-> CASE d.errpos = "middle" -> WithMiddleErr(SideValues(d.out))
                           [] d.errpos = "double" -> Append(SideValues(d.out), [name |-> "", type |-> "E", sub |-> ""])
                           [] OTHER -> SideValues(d.out)]

VARIABLES d, l, rec
EnumInit == d \in Descs /\ l = 0 /\ rec = [ev |-> "none"]
EnumSpec == EnumInit /\ [][UNCHANGED <<d, l, rec>>]_<<d, l, rec>>
Emit == PrintT(<<"DESC", ToJson(d)>>)

Trace == ndJsonDeserialize(TraceFile)
TInit == l = 1 /\ rec = [ev |-> "none"] /\ d = 0
TNext == l <= Len(Trace) /\ l' = l + 1 /\ rec' = Trace[l] /\ UNCHANGED d
TraceSpec == TInit /\ [][TNext]_<<d, l, rec>>
C14 == rec.ev = "obs" =>
   LET e == Expected(rec.desc) IN
   /\ rec.panic = ""                  \* a rejection is an error value, never a panic
   /\ rec.ok = e.ok
   /\ e.ok => (rec.inp = e.inp /\ rec.out = e.out)
   \* what a function reports does not change by being used: the same lists after it took part in a Call
   /\ e.ok => (rec.inp2 = e.inp /\ rec.out2 = e.out)
Accepted == TLCGet("stats").diameter - 1 = Len(Trace)
Pos == [line |-> l, sid |-> 0]
=============================================================================
