SPECIFICATION Spec
CONSTANT N = 3
CONSTANT defaultInitValue = 0
INVARIANTS DFSOk KahnOk SCCOk
CHECK_DEADLOCK FALSE
