---------------------------- MODULE LabelsLemma ----------------------------
(***************************************************************************)
(* The sandwich the contract invariants rest on, checked exhaustively over *)
(* a label universe that contains every shape the families use:            *)
(*   MustMatch (what the library's edge rules certainly connect)           *)
(*     implies MayMatch (the matching table of the documentation),         *)
(* hence everything derivable under the lower bound is derivable under the *)
(* upper bound (Fix is monotone in the relation).  Also: both relations    *)
(* accept an identical label, and neither lets two different names meet.   *)
(***************************************************************************)
EXTENDS Labels, TLC

U == {L(n, t, s) : n \in {"", "a", "b"}, t \in {"T1", "T2", "P1", "U1", "I1", "I12", "E", "PE"}, s \in {"", "s", "t"}}

VARIABLE x
Init == x = 0
Next == UNCHANGED x
Spec == Init /\ [][Next]_x

MustImpliesMay == \A r \in U, p \in U : MustMatch(r, p) => MayMatch(r, p)
Reflexive == \A r \in U : MustMatch(r, r) /\ MayMatch(r, r)
NamesNeverCross == \A r \in U, p \in U : (r.name # "" /\ p.name # "" /\ r.name # p.name) => ~MayMatch(r, p)
\* a few converter sets: the lower-bound fixpoint is contained in the upper-bound one
CS == { <<[in |-> <<i>>, out |-> <<o>>]>> : i \in {L("", "T1", ""), L("a", "T1", "s"), L("", "I1", "")}, o \in {L("", "T2", ""), L("b", "T2", "t"), L("", "P1", "s")} }
FixMonotone == \A cs \in CS, a \in {L("", "T1", ""), L("a", "T1", "s"), L("a", "T1", ""), L("", "T1", "t"), L("", "P1", "")} :
                 Fix(cs, MustMatch, {a}) \subseteq Fix(cs, MayMatch, {a})
Lemma == MustImpliesMay /\ Reflexive /\ NamesNeverCross /\ FixMonotone
=============================================================================
